(** * C02 - tokens tile the source and end in EOF: what is proved for every input.
    Token extents are [start_i, start_{i+1}) by representation, so "no gaps or overlaps between
    tokens" is definitional; the theorems below give the rest that does not depend on
    individual handlers.  Not yet proved here (tested by the check's oracle on every input and
    stated in DESIGN.md): the first token starts right after the BOM, no handler emits a second
    EOF, and the debug run never panics (C01).
    For macro-free texts (release profile) [C02_macro_free_tiling] closes these gaps: the starts form
    a non-decreasing chain from the first position after an optional byte-order mark, where the
    first token starts, to the end of the text (a corollary of the C11 simulation and of the same
    fact about the reference lexer). *)
From Coq Require Import NArith List Lia.
From SasLexer Require Import Gen.TokenType Gen.ErrorKind Gen.Channel Model.Base Model.Core Model.Buffer
     Model.Lexer3 Proofs.Generic Proofs.LexGeneric Proofs.DbgErase Proofs.Sorted Proofs.LexSorted
     Proofs.BufferProofs Proofs.WfCheck Properties.C19 Spec.RefLex Proofs.RefLexTiling Proofs.OcBase Proofs.OcWhole Proofs.OcAll Proofs.MacroFree.
Import ListNotations.
Open Scope N_scope.

(** every token start lies inside the text on a UTF-8 character boundary (both profiles, both
    feature settings, every source) *)
Theorem C02_boundaries : forall (cfg : config) (src : list char) t,
  In t (b_toks (lr_buffer (lex cfg src))) ->
  t_byte t <= blen src /\ exists p q, src = p ++ q /\ blen p = t_byte t.
Proof.
  intros cfg src t Ht.
  pose proof (proj1 (Forall_forall _ _) (proj1 (lex_positions cfg src)) t Ht) as P.
  split; [apply (IsPos_le _ _ _ P)|]. destruct P as (p & q & E & B & _). exists p, q. auto.
Qed.
Print Assumptions C02_boundaries.

(** start offsets never decrease: whenever the debug-profile run returns, in the debug profile ... *)
Theorem C02_sorted_debug : forall (m : bool) (src : list char),
  lr_outcome (lex (mkCfg true m) src) = None ->
  forall i t u, nth_error (b_toks (lr_buffer (lex (mkCfg true m) src))) i = Some t ->
                nth_error (b_toks (lr_buffer (lex (mkCfg true m) src))) (S i) = Some u ->
                t_byte t <= t_byte u.
Proof. exact lex_sorted_debug. Qed.
Print Assumptions C02_sorted_debug.

(** ... and in the release profile, which has no assertion to enforce it *)
Theorem C02_sorted_release : forall (m : bool) (src : list char),
  lr_outcome (lex (mkCfg true m) src) = None ->
  s_loop_detected (lr_state (lex (mkCfg true m) src)) = false ->
  forall i t u, nth_error (b_toks (lr_buffer (lex (mkCfg false m) src))) i = Some t ->
                nth_error (b_toks (lr_buffer (lex (mkCfg false m) src))) (S i) = Some u ->
                t_byte t <= t_byte u.
Proof.
  intros m src H F. rewrite (C19_debug_release m src H F). exact (lex_sorted_debug m src H).
Qed.
Print Assumptions C02_sorted_release.

(** the last token is an EOF token *)
Theorem C02_last_is_eof : forall (cfg : config) (src : list char) d0,
  t_type (last (b_toks (lr_buffer (lex cfg src))) d0) = T_EOF.
Proof.
  intros cfg src d0. unfold lex. destruct (split_bom src) as [[bb bc] text].
  destruct (lex_text_buffer_errors cfg bb bc text) as [-> _]. apply into_detached_last_eof.
Qed.
Print Assumptions C02_last_is_eof.

(** every accessor succeeds for every token index of a well-formed buffer (C05's premise,
    which the check evaluates on every buffer the implementation returns) *)
Theorem C02_accessors_succeed : forall (d : bool) (b : tbuf), wfbuf_b b = true ->
  forall k, (k < List.length (b_toks b))%nat -> exists r, row_of_accessors d b (N.of_nat k) = AOk r.
Proof.
  intros d b W k Hk.
  destruct (views_agree d b (wfbuf_b_sound b W)) as (rows & _ & Hlen & Hall).
  assert (Hk' : (k < List.length rows)%nat).
  { unfold len, n_toks, len in Hlen. apply Nnat.Nat2N.inj in Hlen. rewrite Hlen. exact Hk. }
  destruct (nth_error rows k) as [r|] eqn:E; [|apply nth_error_None in E; lia].
  exists r. apply Hall. exact E.
Qed.
Print Assumptions C02_accessors_succeed.

(** macro-free texts, release profile: the starts are a chain from the first position after the
    byte-order mark to the end of the text; [chain lo hi xs] = lo <= x1 <= x2 <= ... <= hi *)
Theorem C02_macro_free_tiling : forall (msep : bool) (src : list char),
  macro_free (body_of src) = true ->
  let toks := b_toks (lr_buffer (lex (mkCfg false msep) src)) in
  let '(bb, text) := match src with c :: r => if c =? 65279 then (utf8_len c, r) else (0, src) | [] => (0, src) end in
  chain bb (bb + blen text) (map t_byte toks) /\ match toks with t :: _ => t_byte t = bb | [] => False end.
Proof. exact mf_C02_macro_free_tiling. Qed.
Print Assumptions C02_macro_free_tiling.

(** ... and exactly one EOF token, the last one, at the end of the text *)
Theorem C02_macro_free_single_eof : forall (msep : bool) (src : list char),
  macro_free (body_of src) = true ->
  let toks := b_toks (lr_buffer (lex (mkCfg false msep) src)) in
  let '(bb, text) := match src with c :: r => if c =? 65279 then (utf8_len c, r) else (0, src) | [] => (0, src) end in
  exists L e, toks = L ++ [e] /\ t_type e = T_EOF /\ t_byte e = bb + blen text /\
              Forall (fun t => t_type t <> T_EOF) L.
Proof. exact mf_C02_macro_free_single_eof. Qed.
Print Assumptions C02_macro_free_single_eof.

Example c02_example :
  map t_byte (b_toks (lr_buffer (lex (mkCfg false true) [65279; 97; 59]))) = [3; 4; 5].
Proof. vm_compute. reflexivity. Qed.
