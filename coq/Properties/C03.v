(** * C03 - character offsets are the code-point index of the byte offset.
    Statements only; proofs in Proofs/Generic.v (one lemma per primitive operation, lifted to
    every program over the primitives) and Proofs/LexGeneric.v. *)
From Coq Require Import NArith List.
From SasLexer Require Import Gen.TokenType Gen.ErrorKind Gen.Channel Model.Base Model.Core
     Model.Lexer3 Proofs.Generic Proofs.LexGeneric.
Import ListNotations.
Open Scope N_scope.

(** For every source text (any list of scalar values), both build profiles and both feature
    settings: every token of the returned buffer and every reported error sits at a byte offset
    that is the UTF-8 length of a prefix of the source (a character boundary inside the text),
    and its character offset is the number of characters of that prefix.  This also holds of
    the partial result when the run ends in a panic. *)
Theorem C03_char_offsets : forall (cfg : config) (src : list char),
  (forall t, In t (b_toks (lr_buffer (lex cfg src))) ->
     exists p q, src = p ++ q /\ blen p = t_byte t /\ len p = t_start t) /\
  (forall e, In e (lr_errors (lex cfg src)) ->
     exists p q, src = p ++ q /\ blen p = e_byte e /\ len p = e_char e).
Proof.
  intros cfg src. destruct (lex_positions cfg src) as [Ht He].
  split; intros x Hx; [exact (proj1 (Forall_forall _ _) Ht x Hx) | exact (proj1 (Forall_forall _ _) He x Hx)].
Qed.
Print Assumptions C03_char_offsets.

(** The prefix is determined by the byte offset, so the character offset is *the* code-point
    index of the byte offset: any prefix of that byte length has exactly that many characters. *)
Theorem C03_char_offset_unique : forall (cfg : config) (src : list char) t,
  In t (b_toks (lr_buffer (lex cfg src))) ->
  forall p q, src = p ++ q -> blen p = t_byte t -> len p = t_start t.
Proof.
  intros cfg src t Ht p q E B.
  destruct (proj1 (C03_char_offsets cfg src) t Ht) as (p' & q' & E' & B' & C').
  assert (p = p') by (eapply prefix_unique; [rewrite <- E, <- E'; reflexivity | congruence]).
  subst. exact C'.
Qed.
Print Assumptions C03_char_offset_unique.

(** The same for every *program over the primitives*, not only for the handlers that exist
    today: a handler can reach the state only through [exec]. *)
Theorem C03_every_program : forall (d : bool) (src : list char) (A : Type) (p : prog A) (s : st),
  InvPos src s -> match run d p s with Done _ s' => InvPos src s' | Panic _ s' => InvPos src s' end.
Proof. intros. apply (run_InvPos d src p s H). Qed.
Print Assumptions C03_every_program.

(** Non-vacuity: the statement computes on a text with 1-, 2-, 3- and 4-byte characters. *)
Example c03_example :
  map (fun t => (t_byte t, t_start t))
      (b_toks (lr_buffer (lex (mkCfg true false) [97; 233; 32; 20013; 128512; 59]))) =
  [(0, 0); (3, 2); (4, 3); (7, 4); (11, 5); (12, 6)].
Proof. vm_compute. reflexivity. Qed.
