(** * C09 - every reported error is anchored in the text: what is proved for every input.
    Proved here: each error's byte offset lies within the source on a character boundary and
    its character offset is the code-point index of that offset (generic, all programs).
    The anchoring of [last_token] in the *final* token stream and the missing-symbol/virtual
    token pairing depend on "no error is recorded while a checkpoint that is later rolled back
    is live"; the model run monitors exactly that ([g_err_ok]) on every input of the check,
    and the check's oracle tests the full statement on the implementation's output.
    For macro-free texts (release profile) [C09_macro_free_error_order] proves the ordering clause
    outright: the error offsets are a non-decreasing chain inside the text, and every kind is one of
    the six user-level kinds of open code - none of the 'missing expected' kinds, so the pairing
    clauses have no instance there (corollary of the C11 simulation). *)
From Coq Require Import NArith List.
From SasLexer Require Import Gen.TokenType Gen.ErrorKind Gen.Channel Model.Base Model.Core
     Model.Lexer3 Spec.RefLex Proofs.Generic Proofs.LexGeneric Proofs.RefLexErrors Proofs.RefLexTiling Proofs.OcBase Proofs.OcWhole Proofs.OcAll Proofs.MacroFree.
Import ListNotations.
Open Scope N_scope.

Theorem C09_error_offsets : forall (cfg : config) (src : list char) e,
  In e (lr_errors (lex cfg src)) ->
  e_byte e <= blen src /\ exists p q, src = p ++ q /\ blen p = e_byte e /\ len p = e_char e.
Proof.
  intros cfg src e He.
  pose proof (proj1 (Forall_forall _ _) (proj2 (lex_positions cfg src)) e He) as P.
  split; [apply (IsPos_le _ _ _ P)|exact P].
Qed.
Print Assumptions C09_error_offsets.

Example c09_example :
  map (fun e => (ek_code (e_kind e), e_byte e, e_last e))
      (lr_errors (lex (mkCfg true false) [37; 108; 101; 116; 32; 97; 32; 49; 59])) = [(1008, 7, Some 3)].
Proof. vm_compute. reflexivity. Qed.

(** macro-free texts: errors in source order, inside the text, user-level kinds only;
    [chain lo hi xs] = lo <= x1 <= x2 <= ... <= hi *)
Theorem C09_macro_free_error_order : forall (msep : bool) (src : list char),
  macro_free (body_of src) = true ->
  let errs := lr_errors (lex (mkCfg false msep) src) in
  let '(bb, text) := match src with c :: r => if c =? 65279 then (utf8_len c, r) else (0, src) | [] => (0, src) end in
  chain bb (bb + blen text) (map e_byte errs) /\ Forall (fun e => In (e_kind e) USER_ERRS) errs.
Proof. exact mf_C09_macro_free_error_order. Qed.
Print Assumptions C09_macro_free_error_order.
