(** * C14 - omitting a mandatory delimiter is diagnosed where it was expected: the mechanism.
    Proved: (1) the constructs of the C14 list pre-load an expectation mode for their mandatory
    delimiter; (2) when the lexer is in an [ExpectSymbol] expectation and the next character is
    not the expected one (or the input has ended), it records the matching MissingExpected
    error at the current position, adds a token of the expected type and channel at the
    current token start without consuming input, and pops the mode - for every state, in the
    release profile (and, by C19, in a debug run that returns).  That every single-delimiter
    deletion in every program of the construct grammar yields exactly this error and token at
    the expected offset is tested by the check (sampled programs x all deletions). *)
From Coq Require Import NArith List Bool.
From SasLexer Require Import Gen.TokenType Gen.ErrorKind Gen.Channel Model.Base Model.Core Model.Helpers
     Model.Lexer2 Model.Lexer3 Proofs.Expected.
Import ListNotations.
Open Scope N_scope.

Theorem C14_expectations_preloaded :
  has_mode (MExpectSymbol T_ASSIGN CH_DEFAULT) (PRE_let E_InvalidMacroLetVarName)
  && has_mode (MExpectSymbol T_ASSIGN CH_DEFAULT) (PRE_do_var false (Some E_UnexpectedSemiInDoLoop))
  && has_mode (MExpectSymbol T_COMMA CH_DEFAULT) (PRE_scan_or_substr true)
  && has_mode (MExpectSymbol T_COMMA CH_DEFAULT) (PRE_scan_or_substr false)
  && has_mode (MExpectSymbol T_FSLASH CH_DEFAULT) PRE_name_then_opts
  && has_mode MExpectSemiOrEOF PRE_until_while
  && has_mode (MExpectSymbol T_LPAREN CH_DEFAULT) PRE_until_while = true.
Proof. exact c14_preloads. Qed.

Theorem C14_missing_symbol_recovery : forall s ty chn next expected ek,
  expected_row ty = Some (expected, ek) ->
  match next with Some c => (c =? expected) = false | None => True end ->
  run false (lex_expected_token next ty chn) s = Done tt (recovered s ty chn ek).
Proof. exact lex_expected_token_missing. Qed.
Print Assumptions C14_missing_symbol_recovery.

Theorem C14_recovery_shape : forall s ty chn ek m0 r,
  s_modes s = m0 :: r ->
  s_cur (recovered s ty chn ek) = s_cur s /\ s_modes (recovered s ty chn ek) = r /\
  (exists e, hd_error (s_errs (recovered s ty chn ek)) = Some e /\ e_kind e = ek /\
             e_byte e = cur_byte s /\ e_char e = cur_char s) /\
  (exists t, hd_error (w_toks (s_buf (recovered s ty chn ek))) = Some t /\ t_type t = ty /\ t_chan t = chn /\
             t_byte t = s_ct_byte s /\ t_start t = s_ct_start s /\ t_payload t = PNone).
Proof. intros. apply recovery_facts with (m0 := m0). assumption. Qed.
Print Assumptions C14_recovery_shape.

Example c14_example :
  (* %let a 1;  - the '=' is missing: error 1008 at offset 7 and a zero-width ASSIGN there *)
  let r := lex (mkCfg false false) [37; 108; 101; 116; 32; 97; 32; 49; 59] in
  map (fun e => (ek_code (e_kind e), e_byte e)) (lr_errors r) = [(1008, 7)] /\
  existsb (fun t => tt_eqb (t_type t) T_ASSIGN && (t_byte t =? 7)) (b_toks (lr_buffer r)) = true.
Proof. vm_compute. split; reflexivity. Qed.
