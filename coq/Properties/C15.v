(** * C15 - lexing is compositional at closed statement boundaries.
    The statement, in Coq: [Spec.Glue.compose_check cfg A B <> Some false] for all A, B, where
    [compose_check] decides whether A is a closed prefix ([closed], DESIGN 6.4) and, if so,
    compares [lex (A ++ B)] with [glue (lex A) (lex B)].
    Proved: the statement for the production [';'*] in closed form (every non-empty run of empty
    statements is a closed prefix; followed by any number of empty statements the result is the
    glue), and the boundary step: from any open-code state a ';' leaves the top of the
    statement-pending stack false and every other part of the configuration unchanged.
    Evaluated, not proved (partial): the statement for arbitrary closed prefixes and
    continuations - by the extracted [compose_check] on the model and by the harness oracle on
    the implementation, on the same pairs. *)
From Coq Require Import NArith List Bool.
From SasLexer Require Import Gen.TokenType Gen.ErrorKind Gen.Channel Model.Base Model.Core Model.Helpers
     Model.Lexer3 Spec.Glue Proofs.SemiProgram Proofs.SemiCompose.
Import ListNotations.
Open Scope N_scope.

Definition C15_statement (cfg : config) : Prop := forall A B, compose_check cfg A B <> Some false.

Theorem C15_empty_statements : forall (m : bool) (n k : nat), (1 <= n)%nat ->
  compose_check (mkCfg false m) (semis n) (semis k) = Some true.
Proof. exact semis_compose. Qed.
Print Assumptions C15_empty_statements.

Theorem C15_empty_statements_closed_form : forall (m : bool) (n : nat),
  let r := lex (mkCfg false m) (semis n) in
  lr_outcome r = None /\ s_aborted (lr_state r) = false /\ result_of r = semis_result n /\
  s_modes (lr_end r) = [MDefault] /\ s_mnl (lr_end r) = 0 /\ cp_is_some (lr_end r) = false /\
  s_pstat (lr_end r) = [false].
Proof. exact semis_lex_exact. Qed.
Print Assumptions C15_empty_statements_closed_form.

Theorem C15_boundary_step : forall F msep s ms r p b ps,
  s_modes s = MDefault :: ms -> c_rest (s_cur s) = c_semi :: r ->
  w_nlines (s_buf s) = Npos p -> s_pstat s = b :: ps ->
  exists s', run false (lex_token F msep c_semi) s = Done tt s' /\
    s_modes s' = s_modes s /\ s_mnl s' = s_mnl s /\ cp_is_some s' = cp_is_some s /\
    s_pstat s' = false :: ps /\ c_rest (s_cur s') = r /\ s_errs s' = s_errs s.
Proof.
  intros F msep s ms r p b ps H1 H2 H3 H4.
  destruct (default_semi_step F msep s ms r p b ps H1 H2 H3 H4) as (s' & Hr & Ho).
  exists s'. split; [exact Hr|].
  pose proof (f_equal o_modes Ho) as A1. pose proof (f_equal o_mnl Ho) as A2. pose proof (f_equal o_cp Ho) as A3.
  pose proof (f_equal o_pstat Ho) as A4. pose proof (f_equal o_rest Ho) as A5. pose proof (f_equal o_errs Ho) as A6.
  repeat split; assumption.
Qed.
Print Assumptions C15_boundary_step.

(** a closed prefix ends in the initial configuration (definitional part of [closed]) *)
Theorem C15_closed_is_initial : forall A r, closed A r = true ->
  s_modes (lr_end r) = [MDefault] /\ s_mnl (lr_end r) = 0 /\ s_pstat (lr_end r) = [false] /\ cp_is_some (lr_end r) = false.
Proof.
  intros A r H. unfold closed in H. repeat (apply andb_true_iff in H; destruct H as [H ?]).
  match goal with X : initial_config _ = true |- _ => unfold initial_config in X; repeat (apply andb_true_iff in X; destruct X as [X ?]) end.
  repeat split.
  - destruct (s_modes (lr_end r)) as [|[] [|? ?]]; try discriminate; reflexivity.
  - apply N.eqb_eq. assumption.
  - destruct (s_pstat (lr_end r)) as [|[] [|? ?]]; try discriminate; reflexivity.
  - destruct (cp_is_some (lr_end r)); [discriminate|reflexivity].
Qed.
Print Assumptions C15_closed_is_initial.

Example c15_example :
  compose_check (mkCfg true false) [120; 61; 49; 59] [42; 99; 59] = Some true /\   (* "x=1;" "*c;" *)
  compose_check (mkCfg true false) [120; 61; 49] [59] = None.                       (* "x=1" is not closed *)
Proof. vm_compute. split; reflexivity. Qed.

(** Known finding KF-1 (known_findings.txt): the full statement is false of the model, as it is
    of the implementation - the datalines look-behind wants a default-channel ';' and does not
    see the statement comment that closed the prefix.  "%t*;" then "lines;" *)
Theorem C15_refuted_by_datalines_lookbehind :
  compose_check (mkCfg true false) [37; 116; 42; 59] [108; 105; 110; 101; 115; 59] = Some false /\
  compose_check (mkCfg false false) [37; 116; 42; 59] [108; 105; 110; 101; 115; 59] = Some false.
Proof. vm_compute. split; reflexivity. Qed.
