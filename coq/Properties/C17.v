(** * C17 - a leading byte-order mark is transparent.
    For every source that does not itself start with U+FEFF, both profiles and both feature
    settings: if the run on the plain source returns without exhausting the iteration budget and
    without tripping the debug-only loop detector (C01), the run on the source prefixed with a
    mark returns the same tokens, payloads, literal buffer and errors with byte offsets
    increased by three and character offsets by one, and unchanged line indexes and columns.
    (The model keeps offsets relative to the text after the mark; that this matches the
    implementation's absolute arithmetic is what the correspondence stream with marked inputs
    checks.  The proof content is that the two parameters of the main loop that depend on the
    absolute source length - budget and initial detector state - are never decisive.) *)
From Coq Require Import NArith List Bool.
From SasLexer Require Import Gen.TokenType Gen.ErrorKind Gen.Channel Model.Base Model.Core Model.Lexer3 Spec.RefLex Proofs.Bom
     Proofs.OcBase Proofs.OcWhole Proofs.OcAll.
Import ListNotations.
Open Scope N_scope.

Theorem C17_bom_transparent : forall (cfg : config) (src : list char),
  match src with c :: _ => (c =? BOM) = false | [] => True end ->
  lr_outcome (lex cfg src) = None ->
  s_aborted (lr_end (lex cfg src)) = false ->
  s_loop_detected (lr_end (lex cfg src)) = false ->
  lr_outcome (lex cfg (BOM :: src)) = None /\
  b_toks (lr_buffer (lex cfg (BOM :: src))) = map (shift_tok 3 1) (b_toks (lr_buffer (lex cfg src))) /\
  b_lines (lr_buffer (lex cfg (BOM :: src))) = map (shift_line 3 1) (b_lines (lr_buffer (lex cfg src))) /\
  b_lit (lr_buffer (lex cfg (BOM :: src))) = b_lit (lr_buffer (lex cfg src)) /\
  lr_errors (lex cfg (BOM :: src)) = map (shift_err 3 1) (lr_errors (lex cfg src)).
Proof.
  intros cfg src Hb.
  assert (E0 : split_bom src = ((0, 0), src)).
  { unfold split_bom. destruct src as [|c r]; [reflexivity|]. rewrite Hb. reflexivity. }
  assert (E1 : split_bom (BOM :: src) = ((3, 1), src)) by reflexivity.
  unfold lex. rewrite E0, E1. intros Ho Fa Fl.
  destruct (lex_text_bom cfg 3 1 src Ho Fa Fl) as (H1 & _ & _ & H2 & H3 & H4 & H5).
  repeat split; assumption.
Qed.
Print Assumptions C17_bom_transparent.

(** on macro-free text (release profile) the premises hold by the simulation theorem of C11, so the
    statement is unconditional there *)
Theorem C17_bom_transparent_macro_free : forall (msep : bool) (src : list char),
  match src with c :: _ => (c =? BOM) = false | [] => True end ->
  macro_free src = true ->
  let cfg := mkCfg false msep in
  lr_outcome (lex cfg (BOM :: src)) = None /\
  b_toks (lr_buffer (lex cfg (BOM :: src))) = map (shift_tok 3 1) (b_toks (lr_buffer (lex cfg src))) /\
  b_lines (lr_buffer (lex cfg (BOM :: src))) = map (shift_line 3 1) (b_lines (lr_buffer (lex cfg src))) /\
  b_lit (lr_buffer (lex cfg (BOM :: src))) = b_lit (lr_buffer (lex cfg src)) /\
  lr_errors (lex cfg (BOM :: src)) = map (shift_err 3 1) (lr_errors (lex cfg src)).
Proof.
  intros msep src Hb Hmf cfg.
  assert (Hbody : body_of src = src).
  { unfold body_of, split_bom. destruct src as [|c r]; [reflexivity|]. rewrite Hb. reflexivity. }
  pose proof (lex_is_reflex_macro_free msep src ltac:(rewrite Hbody; exact Hmf)) as G. cbv zeta in G.
  destruct (reflex src) as [[T E] lit]. destruct G as (G1 & _ & _ & _ & _ & G6 & G7 & _).
  exact (C17_bom_transparent cfg src Hb G1 G6 G7).
Qed.
Print Assumptions C17_bom_transparent_macro_free.

(** shifting leaves types, channels, line indexes, payloads, error kinds, lines and columns alone *)
Lemma C17_shift_fields : forall t e,
  (t_type (shift_tok 3 1 t), t_chan (shift_tok 3 1 t), t_line (shift_tok 3 1 t), t_payload (shift_tok 3 1 t))
  = (t_type t, t_chan t, t_line t, t_payload t) /\
  (e_kind (shift_err 3 1 e), e_line (shift_err 3 1 e), e_col (shift_err 3 1 e), e_last (shift_err 3 1 e))
  = (e_kind e, e_line e, e_col e, e_last e).
Proof. intros; split; reflexivity. Qed.

Example c17_example :
  let src := [37; 109; 40; 97; 10; 61; 49; 41; 59] in
  map t_byte (b_toks (lr_buffer (lex (mkCfg true false) (BOM :: src)))) =
  map (fun t => t_byte t + 3) (b_toks (lr_buffer (lex (mkCfg true false) src))).
Proof. vm_compute. reflexivity. Qed.
