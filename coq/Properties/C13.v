(** * C13 - macro delimiters are tokens; nested or quoted ones are text.
    Proved (both profiles, every state): in the argument-value scanner the decision whether a
    ',' or ')' is a delimiter is exactly the parenthesis counter - '(' and nested ')' only move
    it, a ',' is text while the counter is non-zero and ends the argument (COMMA token) when it
    is zero in a comma-terminated argument, ')' ends the argument only at zero; and every
    argument-taking built-in pre-loads its own parentheses (C10).  Delimiter and operator
    positions over whole programs - calls, definitions, built-ins, expressions, gaps - are
    tested by the check on sampled grammar programs with recorded positions. *)
From Coq Require Import NArith ZArith List Bool.
From SasLexer Require Import Gen.TokenType Gen.ErrorKind Gen.Channel Model.Base Model.Core Model.Helpers
     Model.Lexer1 Model.Lexer2 Model.Lexer3 Proofs.Tables Proofs.ValueArgs.
Import ListNotations.
Open Scope N_scope.

Theorem C13_nested_comma_is_text : forall d flags pnl local f s,
  peek s = Some c_comma -> (wadd_signed32 pnl local =? 0) = false ->
  run d (value_string_loop (S f) flags pnl local) s =
  run d (bindP advance_ (fun _ => value_string_loop f flags pnl local)) s.
Proof. exact value_step_comma_nested. Qed.
Print Assumptions C13_nested_comma_is_text.

Theorem C13_top_level_comma_ends_argument : forall d flags pnl local f s,
  peek s = Some c_comma -> (wadd_signed32 pnl local =? 0) = true -> af_term_comma flags = true ->
  run d (value_string_loop (S f) flags pnl local) s =
  run d (bindP (emit T_MacroString) (fun _ => bindP pop_mode (fun _ => lex_comma_and_next_arg flags))) s.
Proof. exact value_step_comma_end. Qed.

Theorem C13_parentheses_counted : forall d flags pnl local f s,
  (peek s = Some c_lparen ->
   run d (value_string_loop (S f) flags pnl local) s =
   run d (bindP advance_ (fun _ => value_string_loop f flags pnl (local + 1)%Z)) s) /\
  (peek s = Some c_rparen -> (wadd_signed32 pnl local =? 0) = false ->
   run d (value_string_loop (S f) flags pnl local) s =
   run d (bindP advance_ (fun _ => value_string_loop f flags pnl (local - 1)%Z)) s) /\
  (peek s = Some c_rparen -> (wadd_signed32 pnl local =? 0) = true ->
   run d (value_string_loop (S f) flags pnl local) s =
   run d (bindP (emit T_MacroString) (fun _ => pop_mode)) s).
Proof.
  intros. split; [apply value_step_lparen|]. split; [apply value_step_rparen_nested|apply value_step_rparen_end].
Qed.

Theorem C13_builtin_parentheses : forall t, arg_builtin t = true -> preload_ok t = true.
Proof. exact builtin_preloads. Qed.
