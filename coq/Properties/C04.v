(** * C04 - lines and columns: what is proved for every input.
    The line table is the backbone of every line/column the buffer reports.  Proved here, for
    every program over the primitives and for the whole lexer: as long as the line-protocol
    monitor stays on ("after consuming a line feed call add_line before anything observes the
    table"), the table of the returned buffer is exactly the first line start (after a BOM)
    followed by the position after each line feed, so the line count is one plus the number of
    line feeds.  The monitor is a premise: it is evaluated by the model run on every input of
    the check (the model and the implementation agree token for token on those inputs), and the
    start/end line/column statements for tokens and errors are tested by the check's oracle. *)
From Coq Require Import NArith List.
From SasLexer Require Import Gen.TokenType Gen.ErrorKind Gen.Channel Model.Base Model.Core Model.Buffer
     Model.Lexer3 Proofs.Generic Proofs.Lines Proofs.LexLines.
Import ListNotations.
Open Scope N_scope.

Theorem C04_line_table : forall (cfg : config) (src : list char),
  lr_outcome (lex cfg src) = None ->
  g_lines_ok (s_ghost (lr_state (lex cfg src))) = true ->
  g_line_debt (s_ghost (lr_state (lex cfg src))) = false ->
  c_rest (s_cur (lr_state (lex cfg src))) = [] ->
  b_lines (lr_buffer (lex cfg src)) = first_line src :: starts_from 0 0 src.
Proof. exact lex_line_table. Qed.
Print Assumptions C04_line_table.

Theorem C04_line_count : forall (cfg : config) (src : list char),
  lr_outcome (lex cfg src) = None ->
  g_lines_ok (s_ghost (lr_state (lex cfg src))) = true ->
  g_line_debt (s_ghost (lr_state (lex cfg src))) = false ->
  c_rest (s_cur (lr_state (lex cfg src))) = [] ->
  len (b_lines (lr_buffer (lex cfg src))) = 1 + count_nl src.
Proof. exact lex_line_count. Qed.
Print Assumptions C04_line_count.

(** the invariant behind it holds for every program over the primitives *)
Theorem C04_every_program : forall first src (d : bool) (A : Type) (p : prog A) (s : st),
  InvPos src s -> LInv first src s ->
  match run d p s with Done _ s' => LInv first src s' | Panic _ _ => True end.
Proof. intros. apply run_LInv; assumption. Qed.
Print Assumptions C04_every_program.

(** Non-vacuity: the premises hold on a text with line feeds inside a comment, a string and a
    macro call that is rolled back. *)
Example c04_example :
  let src := [47; 42; 10; 42; 47; 39; 97; 10; 39; 37; 109; 10; 120; 59] in
  let r := lex (mkCfg true false) src in
  (lr_outcome r, g_lines_ok (s_ghost (lr_state r)), g_line_debt (s_ghost (lr_state r)), c_rest (s_cur (lr_state r)))
  = (None, true, false, []) /\ map l_byte (b_lines (lr_buffer r)) = [0; 3; 8; 12].
Proof. vm_compute. split; reflexivity. Qed.
