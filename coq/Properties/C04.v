(** * C04 - lines and columns: what is proved.
    The line table is the backbone of every line/column the buffer reports.  Proved here, for
    every program over the primitives and for the whole lexer: as long as the line-protocol
    monitor stays on ("after consuming a line feed call add_line before anything observes the
    table"), (1) the table of the returned buffer is exactly the first line start (after a BOM)
    followed by the position after each line feed, so the line count is one plus the number of
    line feeds; (2) every token carries the line of its start; (3) every error carries the line
    and column of its position; and from these, by computation on the accessor definitions of
    buffer.rs, (4) the start column and (5) the end line and end column of every token are those of
    the text.  The monitor is a premise of the general theorems: it is evaluated by the model run
    on every input of the check (the model and the implementation agree token for token on those
    inputs).  On macro-free texts it is itself a theorem (the [C04_macro_free_*] statements are
    unconditional).  The check's oracle recomputes all of these from the text on every input as
    well. *)
From Coq Require Import NArith List.
From SasLexer Require Import Gen.TokenType Gen.ErrorKind Gen.Channel Model.Base Model.Core Model.Buffer
     Model.Lexer3 Spec.RefLex Proofs.Generic Proofs.Lines Proofs.LexLines Proofs.TokLines Proofs.ErrLines Proofs.ColLines Proofs.EndLines Proofs.OcAll Proofs.MacroFree.
Import ListNotations.
Open Scope N_scope.

Theorem C04_line_table : forall (cfg : config) (src : list char),
  lr_outcome (lex cfg src) = None ->
  g_lines_ok (s_ghost (lr_state (lex cfg src))) = true ->
  g_line_debt (s_ghost (lr_state (lex cfg src))) = false ->
  c_rest (s_cur (lr_state (lex cfg src))) = [] ->
  b_lines (lr_buffer (lex cfg src)) = first_line src :: starts_from 0 0 src.
Proof. exact lex_line_table. Qed.
Print Assumptions C04_line_table.

Theorem C04_line_count : forall (cfg : config) (src : list char),
  lr_outcome (lex cfg src) = None ->
  g_lines_ok (s_ghost (lr_state (lex cfg src))) = true ->
  g_line_debt (s_ghost (lr_state (lex cfg src))) = false ->
  c_rest (s_cur (lr_state (lex cfg src))) = [] ->
  len (b_lines (lr_buffer (lex cfg src))) = 1 + count_nl src.
Proof. exact lex_line_count. Qed.
Print Assumptions C04_line_count.

(** On macro-free texts (release profile) the premises are discharged: the simulation behind
    [C11_lexer_is_reference] also shows, lexeme class by lexeme class, that every line feed the
    open-code handlers consume (in whitespace, comments, quoted literals, datalines bodies) is
    followed by its [add_line] before the table is observed, and that no [advance_by] (character
    formats, numeric literals, ampersand runs) crosses a line feed.  So the returned line table is
    exactly the first line start followed by the position after every line feed, for every
    macro-free text of any length. *)
Theorem C04_macro_free_line_table : forall (msep : bool) (src : list char),
  macro_free (body_of src) = true ->
  let b := lr_buffer (lex (mkCfg false msep) src) in
  b_lines b = first_line src :: starts_from 0 0 src /\ len (b_lines b) = 1 + count_nl src.
Proof. exact mf_C04_macro_free_line_table. Qed.
Print Assumptions C04_macro_free_line_table.

(** Start lines of tokens.  For every input and both profiles: if the run returns with the monitor
    on and its EOF token in place, the line index stored in every token of the returned buffer is
    the number of line feeds of the source before the token's start byte (the accessor reports
    one plus that index).  Behind it: an invariant of every program over the primitives
    ([C04_every_program_token_lines]) - every token of the work buffer, the current-token fields, a
    pending mark and a live checkpoint carry the right line as long as the monitor is on. *)
Theorem C04_token_lines : forall (cfg : config) (src : list char),
  lr_outcome (lex cfg src) = None ->
  g_lines_ok (s_ghost (lr_state (lex cfg src))) = true ->
  match w_toks (s_buf (lr_state (lex cfg src))) with t :: _ => tt_eqb (t_type t) T_EOF | [] => false end = true ->
  forall t, In t (b_toks (lr_buffer (lex cfg src))) ->
  forall pre rest, src = pre ++ rest -> blen pre = t_byte t -> t_line t = count_nl pre.
Proof. exact lex_token_lines. Qed.
Print Assumptions C04_token_lines.

(** ... with the premises discharged on macro-free texts (release profile) *)
Theorem C04_macro_free_token_lines : forall (msep : bool) (src : list char),
  macro_free (body_of src) = true ->
  forall t, In t (b_toks (lr_buffer (lex (mkCfg false msep) src))) ->
  forall pre rest, src = pre ++ rest -> blen pre = t_byte t -> t_line t = count_nl pre.
Proof. exact mf_C04_macro_free_token_lines. Qed.
Print Assumptions C04_macro_free_token_lines.

Theorem C04_every_program_token_lines : forall first src (d : bool) (A : Type) (p : prog A) (s : st),
  InvPos src s -> LInv first src s -> TLInv src s ->
  match run d p s with Done _ s' => TLInv src s' | Panic _ _ => True end.
Proof. intros. apply (run_TLInv first); assumption. Qed.
Print Assumptions C04_every_program_token_lines.

(** Start columns of tokens, as the accessor of the returned buffer reports them.  For every input,
    both profiles of the lexer and of the accessor: under the premises of [C04_line_table] and with
    the EOF token in place, the start column of every token is the number of characters between
    the last line feed before the token (or the start of the text after the byte-order mark) and
    the token.  Combines the position invariant (C03), the line table and the token lines. *)
Theorem C04_token_start_column : forall (cfg : config) (src : list char),
  let r := lex cfg src in
  let '((bb, _), text) := split_bom src in
  lr_outcome r = None ->
  g_lines_ok (s_ghost (lr_state r)) = true ->
  g_line_debt (s_ghost (lr_state r)) = false ->
  c_rest (s_cur (lr_state r)) = [] ->
  match w_toks (s_buf (lr_state r)) with t :: _ => tt_eqb (t_type t) T_EOF | [] => false end = true ->
  forall d i t, nthN (b_toks (lr_buffer r)) i = Some t ->
  forall pre rest, text = pre ++ rest -> blen pre + bb = t_byte t ->
    get_token_start_column d (lr_buffer r) i = AOk (col_of pre 0).
Proof. exact lex_token_start_column. Qed.
Print Assumptions C04_token_start_column.

Theorem C04_macro_free_token_start_column : forall (msep : bool) (src : list char),
  macro_free (body_of src) = true ->
  let r := lex (mkCfg false msep) src in
  let '((bb, _), text) := split_bom src in
  forall d i t, nthN (b_toks (lr_buffer r)) i = Some t ->
  forall pre rest, text = pre ++ rest -> blen pre + bb = t_byte t ->
    get_token_start_column d (lr_buffer r) i = AOk (col_of pre 0).
Proof. exact mf_C04_macro_free_token_start_column. Qed.
Print Assumptions C04_macro_free_token_start_column.

(** End lines and end columns, as the accessors report them for a token followed by another one (the
    last token, EOF, is empty and ends where it starts).  [pe] is the text before the token's end.
    [end_pos pe nonempty]: if the token is not empty and its last character is a line feed, the line
    feed's own line and the column just past it; otherwise the line and column of the end position.
    Premise besides those of the line table: the two starts are in order (C02). *)
Theorem C04_token_end_position : forall (cfg : config) (src : list char),
  let r := lex cfg src in
  let '((bb, _), text) := split_bom src in
  lr_outcome r = None ->
  g_lines_ok (s_ghost (lr_state r)) = true ->
  g_line_debt (s_ghost (lr_state r)) = false ->
  c_rest (s_cur (lr_state r)) = [] ->
  match w_toks (s_buf (lr_state r)) with t :: _ => tt_eqb (t_type t) T_EOF | [] => false end = true ->
  forall d i t nt, nthN (b_toks (lr_buffer r)) i = Some t -> nthN (b_toks (lr_buffer r)) (i + 1) = Some nt ->
  t_byte t <= t_byte nt ->
  forall pe re, text = pe ++ re -> blen pe + bb = t_byte nt ->
    let ep := end_pos pe (negb (t_byte t =? t_byte nt)) in
    get_token_end_line d (lr_buffer r) i = AOk (fst ep) /\ get_token_end_column d (lr_buffer r) i = AOk (snd ep).
Proof. exact lex_token_end_position. Qed.
Print Assumptions C04_token_end_position.

Theorem C04_macro_free_token_end_position : forall (msep : bool) (src : list char),
  macro_free (body_of src) = true ->
  let r := lex (mkCfg false msep) src in
  let '((bb, _), text) := split_bom src in
  forall d i t nt, nthN (b_toks (lr_buffer r)) i = Some t -> nthN (b_toks (lr_buffer r)) (i + 1) = Some nt ->
  forall pe re, text = pe ++ re -> blen pe + bb = t_byte nt ->
    let ep := end_pos pe (negb (t_byte t =? t_byte nt)) in
    get_token_end_line d (lr_buffer r) i = AOk (fst ep) /\ get_token_end_column d (lr_buffer r) i = AOk (snd ep).
Proof. exact mf_C04_macro_free_token_end_position. Qed.
Print Assumptions C04_macro_free_token_end_position.

(** ... and the last token of any buffer (the EOF token) ends where it starts, in both profiles *)
Theorem C04_last_token_end : forall (d : bool) (b : tbuf) (i : N) (t : tok),
  nthN (b_toks b) i = Some t -> i + 1 = n_toks b ->
  get_token_end_line d b i = get_token_start_line d b i /\
  get_token_end_column d b i = get_token_start_column d b i.
Proof. exact last_token_end. Qed.
Print Assumptions C04_last_token_end.

(** Lines and columns of errors.  For every input and both profiles: if the run returns with the
    monitor on, every reported error carries the 1-based line of its position (one plus the number
    of line feeds before it) and, as column, the number of characters since the last line feed
    before it - counted in the text after the byte-order mark, so the mark is not part of the
    first line's columns.  [col_of p 0] = characters of [p] after its last line feed. *)
Theorem C04_error_positions : forall (cfg : config) (src : list char),
  let r := lex cfg src in
  let '((bb, _), text) := split_bom src in
  lr_outcome r = None ->
  g_lines_ok (s_ghost (lr_state r)) = true ->
  forall e, In e (lr_errors r) ->
  forall pre rest, text = pre ++ rest -> blen pre + bb = e_byte e ->
    e_line e = 1 + count_nl pre /\ e_col e = col_of pre 0.
Proof. exact lex_error_positions. Qed.
Print Assumptions C04_error_positions.

Theorem C04_macro_free_error_positions : forall (msep : bool) (src : list char),
  macro_free (body_of src) = true ->
  let r := lex (mkCfg false msep) src in
  let '((bb, _), text) := split_bom src in
  forall e, In e (lr_errors r) ->
  forall pre rest, text = pre ++ rest -> blen pre + bb = e_byte e ->
    e_line e = 1 + count_nl pre /\ e_col e = col_of pre 0.
Proof. exact mf_C04_macro_free_error_positions. Qed.
Print Assumptions C04_macro_free_error_positions.

Theorem C04_every_program_error_positions : forall src (d : bool) (A : Type) (p : prog A) (s : st),
  InvPos src s -> LInv line0 src s -> EInv src s ->
  match run d p s with Done _ s' => EInv src s' | Panic _ _ => True end.
Proof. intros. apply run_EInv; assumption. Qed.
Print Assumptions C04_every_program_error_positions.

(** the invariant behind it holds for every program over the primitives *)
Theorem C04_every_program : forall first src (d : bool) (A : Type) (p : prog A) (s : st),
  InvPos src s -> LInv first src s ->
  match run d p s with Done _ s' => LInv first src s' | Panic _ _ => True end.
Proof. intros. apply run_LInv; assumption. Qed.
Print Assumptions C04_every_program.

(** Non-vacuity: the premises hold on a text with line feeds inside a comment, a string and a
    macro call that is rolled back. *)
Example c04_example :
  let src := [47; 42; 10; 42; 47; 39; 97; 10; 39; 37; 109; 10; 120; 59] in
  let r := lex (mkCfg true false) src in
  (lr_outcome r, g_lines_ok (s_ghost (lr_state r)), g_line_debt (s_ghost (lr_state r)), c_rest (s_cur (lr_state r)))
  = (None, true, false, []) /\ map l_byte (b_lines (lr_buffer r)) = [0; 3; 8; 12].
Proof. vm_compute. split; reflexivity. Qed.

(** token lines on the same text: premises hold, and the line indices are as the theorem says *)
Example c04_token_lines_example :
  let src := [47; 42; 10; 42; 47; 39; 97; 10; 39; 37; 109; 10; 120; 59] in
  let r := lex (mkCfg true false) src in
  (lr_outcome r, g_lines_ok (s_ghost (lr_state r)),
   match w_toks (s_buf (lr_state r)) with t :: _ => tt_eqb (t_type t) T_EOF | [] => false end) = (None, true, true) /\
  map (fun t => (t_byte t, t_line t)) (b_toks (lr_buffer r)) = [(0, 0); (5, 1); (9, 2); (11, 2); (12, 3); (13, 3); (14, 3)].
Proof. vm_compute. split; reflexivity. Qed.

(** start columns behind a BOM and after line feeds *)
Example c04_column_example :
  let src := [65279; 120; 32; 233; 59; 10; 32; 32; 121; 59] in
  let b := lr_buffer (lex (mkCfg true false) src) in
  map (fun i => get_token_start_column true b i) [0; 1; 2; 3; 4; 5; 6; 7] =
  [AOk 0; AOk 1; AOk 2; AOk 3; AOk 4; AOk 2; AOk 3; AOk 4].
Proof. vm_compute. reflexivity. Qed.

(** end positions: a token ending in a line feed ends on that line; the next one starts the next line *)
Example c04_end_example :
  let src := [120; 59; 10; 121; 59] in
  let b := lr_buffer (lex (mkCfg true false) src) in
  map (fun i => (get_token_end_line true b i, get_token_end_column true b i)) [0; 1; 2; 3; 4] =
  [(AOk 1, AOk 1); (AOk 1, AOk 2); (AOk 1, AOk 3); (AOk 2, AOk 1); (AOk 2, AOk 2)] /\
  end_pos [120; 59; 10] true = (1, 3) /\ end_pos [120; 59; 10] false = (2, 0).
Proof. vm_compute. repeat split; reflexivity. Qed.

(** errors: a BOM, an unterminated comment after two lines, and a missing '=' after multi-byte text *)
Example c04_error_example :
  let src := [65279; 37; 108; 101; 116; 32; 233; 32; 49; 59; 10; 120; 10; 47; 42; 32; 233] in
  let r := lex (mkCfg true false) src in
  (lr_outcome r, g_lines_ok (s_ghost (lr_state r))) = (None, true) /\
  map (fun e => (e_byte e, e_line e, e_col e)) (lr_errors r) = [(11, 1, 7); (21, 3, 4)].
Proof. vm_compute. split; reflexivity. Qed.

(** ... and a macro-free text with line feeds in whitespace, a comment, a string, a datalines body *)
Example c04_macro_free_example :
  let src := [120; 10; 47; 42; 10; 42; 47; 39; 97; 10; 39; 59; 99; 97; 114; 100; 115; 59; 10; 49; 10; 59; 10] in
  macro_free (body_of src) = true /\
  map l_byte (b_lines (lr_buffer (lex (mkCfg false false) src))) = [0; 2; 5; 10; 19; 21; 23].
Proof. vm_compute. split; reflexivity. Qed.
