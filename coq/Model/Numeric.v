(** * numeric.rs and hex.rs.
    [lexical::parse_partial_with_options] (third-party) is modelled by its specification for
    the two formats the crate builds (SAS_DECIMAL, SAS_HEX); see DESIGN.md section 9.  Floats are
    IEEE-754 binary64 bit patterns; [round_b64 num den] is the correctly rounded (nearest,
    ties to even) double of the rational [num/den]. *)
From Coq Require Import NArith ZArith List Bool.
From SasLexer Require Import Gen.TokenType Gen.ErrorKind Gen.Channel Model.Base Model.Helpers.
Import ListNotations.
Open Scope N_scope.

Definition pow2 (k : N) : N := N.shiftl 1 k.

(** quotient rounded to nearest, ties to even *)
Definition div_rne (a b : N) : N :=
  let q := a / b in
  let r := a mod b in
  if 2 * r <? b then q
  else if b <? 2 * r then q + 1
  else if N.even q then q else q + 1.

(** [round_at num den s] = rne (num / (den * 2^s)) for a (possibly negative) binary shift [s] *)
Definition round_at (num den : N) (s : Z) : N :=
  match s with
  | Z0 => div_rne num den
  | Zpos p => div_rne num (den * pow2 (Npos p))
  | Zneg p => div_rne (num * pow2 (Npos p)) den
  end.

Definition floor_at (num den : N) (s : Z) : N :=
  match s with
  | Z0 => num / den
  | Zpos p => num / (den * pow2 (Npos p))
  | Zneg p => (num * pow2 (Npos p)) / den
  end.

Definition INF_BITS : N := 9218868437227405312.   (* 0x7FF0000000000000 *)
Definition TWO52 : N := 4503599627370496.
Definition TWO53 : N := 9007199254740992.

(** bits of the binary64 nearest to [num/den] ([den > 0]) *)
Definition round_b64 (num den : N) : N :=
  if num =? 0 then 0
  else
    (* estimate of floor(log2 (num/den)) within one *)
    let k0 := (Z.of_N (N.log2 num) - Z.of_N (N.log2 den))%Z in
    let s0 := Z.max (k0 - 52) (-1074)%Z in
    let q0 := floor_at num den s0 in
    (* normalise on the truncated significand: below 2^53, and at least 2^52 unless subnormal *)
    let s1 :=
        if TWO53 <=? q0 then (s0 + 1)%Z
        else if (q0 <? TWO52) && (-1074 <? s0)%Z then (s0 - 1)%Z
        else s0 in
    let '(q, s) := (round_at num den s1, s1) in
    let '(q, s) := if TWO53 <=? q then (TWO52, (s + 1)%Z) else (q, s) in
    if q <? TWO52 then q   (* subnormal (or zero): exponent field 0 *)
    else
      let e := (s + 52 + 1023)%Z in
      if (2047 <=? e)%Z then INF_BITS
      else Z.to_N e * TWO52 + (q - TWO52).

Definition SIGN_BIT : N := 9223372036854775808.

Definition digit_val (c : char) : N := c - 48.
Definition hexdigit_val (c : char) : N :=
  if is_ascii_digit c then c - 48 else if (97 <=? c) then c - 87 else c - 55.

Definition digits_val (base : N) (dv : char -> N) (l : list char) : N :=
  fold_left (fun a c => a * base + dv c) l 0.

Definition U64_MAX : N := 18446744073709551615.

Record numres : Set := mkNum {
  n_type : TokenType; n_payload : payload; n_len : N; n_err : option ErrorKind
}.

(** [try_parse_integer] *)
Definition try_parse_integer (l : list char) : option numres :=
  let ds := take_while is_ascii_digit l in
  match ds with
  | [] => None
  | _ =>
    let v := digits_val 10 digit_val ds in
    if U64_MAX <? v then None else Some (mkNum T_IntegerLiteral (PInt v) (len ds) None)
  end.

Definition pow10 (k : N) : N := N.pow 10 k.

(** decimal float value [m * 10^e10] as bits; exponents are clamped where the result is
    certainly infinite or zero, so that no astronomically large power is built *)
Definition dec_to_b64 (m : N) (ndigits : N) (e10 : Z) : N :=
  if m =? 0 then 0
  else if (400 <? e10 + Z.of_N ndigits)%Z then INF_BITS
  else if (e10 + Z.of_N ndigits <? -400)%Z then 0
  else match e10 with
       | Z0 => round_b64 m 1
       | Zpos p => round_b64 (m * pow10 (Npos p)) 1
       | Zneg p => round_b64 m (pow10 (Npos p))
       end.

Definition c_e : char := 101.
Definition c_E : char := 69.
Definition c_plus : char := 43.
Definition c_minus : char := 45.

(** exponent digits with saturation (lexical saturates huge exponents) *)
Definition exp_val (ds : list char) : Z :=
  let sig := drop_while (fun c => c =? 48) ds in
  if 6 <? len sig then 1000000%Z else Z.of_N (digits_val 10 digit_val sig).

(** [try_parse_float]: optional [-], digits, optional [.digits], optional exponent *)
Definition try_parse_float (l0 : list char) : option numres :=
  let '(neg, l) := match l0 with c :: r => if c =? c_minus then (true, r) else (false, l0) | [] => (false, l0) end in
  let ip := take_while is_ascii_digit l in
  let r1 := drop_while is_ascii_digit l in
  let '(has_dot, fp, r2) :=
      match r1 with
      | c :: r => if c =? c_dot then (true, take_while is_ascii_digit r, drop_while is_ascii_digit r) else (false, [], r1)
      | [] => (false, [], r1)
      end in
  match ip, fp with
  | [], [] => None   (* no mantissa digits *)
  | _, _ =>
    let mant_len := (if neg then 1 else 0) + len ip + (if has_dot then 1 + len fp else 0) in
    let m := digits_val 10 digit_val (ip ++ fp) in
    let nd := len (drop_while (fun c => c =? 48) (ip ++ fp)) in
    let sign := if neg then SIGN_BIT else 0 in
    let plain e10 extra_len ty :=
        Some (mkNum ty (PFloat (sign + dec_to_b64 m nd (e10 - Z.of_N (len fp)))) (mant_len + extra_len) None) in
    match r2 with
    | c :: r =>
      if (c =? c_e) || (c =? c_E) then
        let '(esign, slen, r3) :=
            match r with
            | x :: q => if x =? c_plus then (1%Z, 1, q) else if x =? c_minus then ((-1)%Z, 1, q) else (1%Z, 0, r)
            | [] => (1%Z, 0, r)
            end in
        let eds := take_while is_ascii_digit r3 in
        match eds with
        | [] => (* EmptyExponent(index after marker and sign) *)
          Some (mkNum T_FloatLiteral (PFloat 0) (mant_len + 1 + slen) (Some E_InvalidNumericLiteral))
        | _ => plain (esign * exp_val eds)%Z (1 + slen + len eds) T_FloatExponentLiteral
        end
      else plain 0%Z 0 T_FloatLiteral
    | [] => plain 0%Z 0 T_FloatLiteral
    end
  end.

(** [try_parse_decimal] *)
Definition try_parse_decimal (l : list char) (try_integer try_float : bool) : option numres :=
  let ir := if try_integer then try_parse_integer l else None in
  let fr := if try_float then try_parse_float l else None in
  match ir, fr with
  | Some i, Some f => if n_len f <=? n_len i then Some i else Some f
  | Some i, None => Some i
  | None, Some f => Some f
  | None, None => None
  end.

(** [try_parse_hex_integer] (the input starts with a digit at every call site) *)
Definition try_parse_hex_integer (l : list char) : option numres :=
  let ds := take_while is_ascii_hexdigit l in
  match ds with
  | [] => None
  | _ =>
    let v := digits_val 16 hexdigit_val ds in
    if v <=? U64_MAX then Some (mkNum T_IntegerLiteral (PInt v) (len ds) None)
    else
      (* re-parsed with lexical's hexadecimal float format: [. hexdigits] is consumed too *)
      let r1 := drop_while is_ascii_hexdigit l in
      let '(fl, fp) := match r1 with
                       | c :: r => if c =? c_dot then (1 + len (take_while is_ascii_hexdigit r), take_while is_ascii_hexdigit r) else (0, [])
                       | [] => (0, [])
                       end in
      let num := digits_val 16 hexdigit_val (ds ++ fp) in
      let den := N.pow 16 (len fp) in
      let nd := len ds in
      let bits := if 300 <? nd then INF_BITS else round_b64 num den in
      Some (mkNum T_FloatLiteral (PFloat bits) (len ds + fl) (Some E_InvalidNumericLiteral))
  end.

(** hex.rs: [parse_sas_hex_string] on the whole token text (quotes and trailing x included) *)
Fixpoint hex_pairs (l : list char) : option (list N) :=
  match l with
  | [] => Some []
  | a :: b :: r =>
    if is_ascii_hexdigit a && is_ascii_hexdigit b then
      option_map (cons (16 * hexdigit_val a + hexdigit_val b)) (hex_pairs r)
    else None
  | [_] => None
  end.

Definition parse_sas_hex_string (text : list char) : (list char) + ErrorKind :=
  (* text.get(1 .. len - 2): fails when the byte range is not on character boundaries *)
  match text with
  | q :: r =>
    let n := List.length r in
    if Nat.ltb n 2 then inr E_InvalidHexStringConstant
    else
      let body := firstn (n - 2) r in
      let tail := skipn (n - 2) r in
      if negb (is_ascii q) || negb (forallb is_ascii tail) then inr E_InvalidHexStringConstant
      else
        let cleaned := filter (fun c => negb (c =? c_comma)) body in
        (* str::get(i..i+2) fails inside a multi-byte character; from_str_radix fails on non-hex *)
        match hex_pairs cleaned with
        | Some bytes => inl bytes    (* ISO-8859-1: byte = code point *)
        | None => inr E_InvalidHexStringConstant
        end
  | [] => inr E_InvalidHexStringConstant
  end.
