(** * The lexer state, its primitive operations, and programs over them.

    [st] has the fields of the Rust [Lexer] struct (mod.rs), [Cursor] (cursor.rs) and
    [WorkTokenizedBuffer] (buffer.rs).  Every function of the crate that touches these
    fields is one constructor of [op] with its semantics in [exec]; handlers are values of
    the free monad [prog] over [op], so a handler can change the state *only* through these
    primitives.  Theorems proved for every [op] therefore hold for every handler, present
    and future, with no per-handler proof (Proofs/Generic.v).

    Conventions: vectors that only grow at the end and are truncated on rollback are stored
    reversed together with their length; the mode stack and the pending-statement stack are
    lists with the top at the head.  [d] is the build profile (debug assertions and overflow
    checks); state observed by handlers through [OGet] has its debug-only fields scrubbed,
    so handlers cannot depend on them by construction. *)
From Coq Require Import NArith ZArith List Bool String.
From RecordUpdate Require Import RecordSet.
From SasLexer Require Import Gen.TokenType Gen.ErrorKind Gen.Channel Model.Base.
Import ListNotations RecordSetNotations.
Open Scope N_scope.

(** ** Lexer modes (lexer_mode.rs).  The two flag sets are the packed [u8] values. *)
Inductive mode : Set :=
| MDefault
| MStringExpr (allow_stat : bool)
| MMakeCheckpoint
| MWsOrCStyleCommentOnly
| MExpectSymbol (t : TokenType) (c : TokenChannel)
| MExpectSemiOrEOF
| MMaybeMacroCallArgsOrLabel (check_macro_label : bool)
| MMaybeMacroCallArgAssign (flags : N)
| MMacroCallArgOrValue (flags : N)
| MMaybeMacroDefArgs
| MMacroDefArg
| MMacroDefNextArgOrDefaultValue
| MMacroDefName
| MMacroCallValue (flags : N) (pnl : N)
| MMaybeTailMacroArgValue
| MMacroStrQuotedExpr (mask_macro : bool) (pnl : N)
| MMacroEval (flags : N) (pnl : N)
| MMacroDo
| MMacroLocalGlobal (is_local : bool)
| MMacroNameExpr (found : bool) (err : option ErrorKind)
| MMacroSemiTerminatedTextExpr
| MMacroStatOptionsTextExpr.

Definition opt_ek_eqb (a b : option ErrorKind) : bool :=
  match a, b with
  | None, None => true
  | Some x, Some y => ek_eqb x y
  | _, _ => false
  end.

Definition mode_eqb (a b : mode) : bool :=
  match a, b with
  | MDefault, MDefault | MMakeCheckpoint, MMakeCheckpoint
  | MWsOrCStyleCommentOnly, MWsOrCStyleCommentOnly | MExpectSemiOrEOF, MExpectSemiOrEOF
  | MMaybeMacroDefArgs, MMaybeMacroDefArgs | MMacroDefArg, MMacroDefArg
  | MMacroDefNextArgOrDefaultValue, MMacroDefNextArgOrDefaultValue
  | MMacroDefName, MMacroDefName | MMaybeTailMacroArgValue, MMaybeTailMacroArgValue
  | MMacroDo, MMacroDo | MMacroSemiTerminatedTextExpr, MMacroSemiTerminatedTextExpr
  | MMacroStatOptionsTextExpr, MMacroStatOptionsTextExpr => true
  | MStringExpr x, MStringExpr y => Bool.eqb x y
  | MExpectSymbol t c, MExpectSymbol t' c' => tt_eqb t t' && ch_eqb c c'
  | MMaybeMacroCallArgsOrLabel x, MMaybeMacroCallArgsOrLabel y => Bool.eqb x y
  | MMaybeMacroCallArgAssign f, MMaybeMacroCallArgAssign g => f =? g
  | MMacroCallArgOrValue f, MMacroCallArgOrValue g => f =? g
  | MMacroCallValue f p, MMacroCallValue g q => (f =? g) && (p =? q)
  | MMacroStrQuotedExpr m p, MMacroStrQuotedExpr n q => Bool.eqb m n && (p =? q)
  | MMacroEval f p, MMacroEval g q => (f =? g) && (p =? q)
  | MMacroLocalGlobal x, MMacroLocalGlobal y => Bool.eqb x y
  | MMacroNameExpr f e, MMacroNameExpr g e' => Bool.eqb f g && opt_ek_eqb e e'
  | _, _ => false
  end.

Definition modes_eqb (a b : list mode) : bool :=
  (len a =? len b) && forallb (fun p => mode_eqb (fst p) (snd p)) (combine a b).

(** ** State *)
Record cursor : Set := mkCursor {
  c_rest : list char;   (* [chars.as_str()] *)
  c_rem : N;            (* [remaining_len()] = bytes of [c_rest], cached *)
  c_off : N;            (* [char_offset] *)
  c_prev : char         (* [prev_char], debug builds only *)
}.

Record wbuf : Set := mkWbuf {
  w_lines : list line_info;   (* reversed *)
  w_nlines : N;
  w_toks : list tok;          (* reversed *)
  w_ntoks : N;
  w_lit : list N;             (* reversed bytes *)
  w_litlen : N
}.

Record checkpoint : Set := mkCp {
  k_cursor : cursor;
  k_ct_byte : N; k_ct_start : N; k_ct_line : N;
  k_nmodes : N;
  k_nlines : N; k_ntoks : N; k_litlen : N
}.

(** Ghost monitors (no effect on behaviour): protocol conditions under which the generic
    theorems about lines, error anchoring and offsets hold.  They are evaluated on every
    model run of the correspondence check. *)
Record ghost : Set := mkGhost {
  g_line_debt : bool;     (* a line feed was consumed and [add_line] has not run yet *)
  g_lines_ok : bool;      (* the line protocol was never violated *)
  g_errs_at_cp : N;       (* number of errors when the live checkpoint was taken *)
  g_err_ok : bool;        (* no error survived a rollback; prepared errors emitted in order *)
  g_errs_at_prep : N;
  g_rollbacks : N;
  g_max_modes : N
}.

Record st : Set := mkSt {
  s_src : list char; s_srclen : N;
  s_cur : cursor;
  s_buf : wbuf;
  s_ct_byte : N; s_ct_start : N; s_ct_line : N;
  s_modes : list mode; s_nmodes : N;
  s_errs : list err_info;      (* reversed *)
  s_nerrs : N;
  s_cp : option checkpoint;
  s_mnl : N;
  s_pstat : list bool;
  s_mark : option (N * N * N);       (* local [ws_mark] of lex_macro_string_in_macro_eval_context *)
  s_perr : option err_info;          (* local [err_info] of dispatch_mode_str_expr *)
  s_iters : N;
  s_aborted : bool;
  s_loop_detected : bool;
  s_ghost : ghost
}.

#[export] Instance eta_cursor : Settable _ := settable! mkCursor <c_rest; c_rem; c_off; c_prev>.
#[export] Instance eta_wbuf : Settable _ := settable! mkWbuf <w_lines; w_nlines; w_toks; w_ntoks; w_lit; w_litlen>.
#[export] Instance eta_ghost : Settable _ := settable! mkGhost <g_line_debt; g_lines_ok; g_errs_at_cp; g_err_ok; g_errs_at_prep; g_rollbacks; g_max_modes>.
#[export] Instance eta_st : Settable _ := settable! mkSt
  <s_src; s_srclen; s_cur; s_buf; s_ct_byte; s_ct_start; s_ct_line; s_modes; s_nmodes; s_errs; s_nerrs;
   s_cp; s_mnl; s_pstat; s_mark; s_perr; s_iters; s_aborted; s_loop_detected; s_ghost>.

(** ** Pure observations *)
Definition NL : char := 10.
Definition EOF_CHAR : char := 0.
Definition BOM : char := 65279.

Definition peek (s : st) : option char :=
  match c_rest (s_cur s) with [] => None | c :: _ => Some c end.

(** [peek_next]: second character, or [EOF_CHAR] *)
Definition peek_next (s : st) : char :=
  match c_rest (s_cur s) with _ :: c :: _ => c | _ => EOF_CHAR end.

Definition rest (s : st) : list char := c_rest (s_cur s).
Definition cur_byte (s : st) : N := s_srclen s - c_rem (s_cur s).
Definition cur_char (s : st) : N := c_off (s_cur s).

Definition last_line (s : st) : option N :=
  if w_nlines (s_buf s) =? 0 then None else Some (w_nlines (s_buf s) - 1).

Definition last_tok (s : st) : option tok := hd_error (w_toks (s_buf s)).

Definition last_tok_type (s : st) : option TokenType := option_map t_type (last_tok s).

Definition is_default (t : tok) : bool := ch_eqb (t_chan t) CH_DEFAULT.

Definition last_default_tok (s : st) : option tok := find is_default (w_toks (s_buf s)).

Definition last_default_type (s : st) : option TokenType := option_map t_type (last_default_tok s).

Definition top_mode (s : st) : option mode := hd_error (s_modes s).

Definition cp_is_some (s : st) : bool := match s_cp s with Some _ => true | None => false end.

(** [source.get(a..b)]: [None] unless [a <= b <= len] and both are character boundaries *)
Fixpoint slice_from (l : list char) (pos a b : N) (acc : list char) (fuel : nat) : option (list char) :=
  if b <? pos then None
  else if pos =? b then (if a <=? pos then Some (rev acc) else None)
  else match fuel, l with
       | S f, c :: r =>
         if pos <? a then slice_from r (pos + utf8_len c) a b acc f
         else if pos =? a then slice_from r (pos + utf8_len c) a b [c] f
         else (* pos > a: inside the slice only if it was started at [a] exactly *)
           match acc with
           | [] => None
           | _ => slice_from r (pos + utf8_len c) a b (c :: acc) f
           end
       | _, _ => None
       end.

Definition src_slice (s : st) (a b : N) : option (list char) :=
  if b <? a then None
  else if a =? b then
    (* empty range: [a] must be a boundary *)
    slice_from (s_src s) 0 a a [] (S (List.length (s_src s)))
  else slice_from (s_src s) 0 a b [] (S (List.length (s_src s))).

(** ** Operations *)
Inductive op : Type -> Type :=
| OGet : op st
| OAdvance : op (option char)
| OAdvanceBy (n : N) : op unit
| OAddLine : op unit
| OStartToken : op unit
| OMarkIfNone : op unit
| OClearMark : op unit
| OEmitToken (ch : TokenChannel) (ty : TokenType) (pl : payload) : op unit
| OEmitTokenAtMark (ch : TokenChannel) (ty : TokenType) (pl : payload) : op unit
| OUpdateLastToken (ch : TokenChannel) (ty : TokenType) (pl : payload) : op unit
| ORetypeLastDefaultToLabel : op bool
| OInsertSepBeforeLastDefault (needs : option TokenType -> TokenType -> bool) : op unit
| OAddStringLiteral (text : list char) : op (N * N)
| OAddStringLiteralFromSrc (a : N) (b : option N) : op (N * N)
| OSrcSlice (a b : N) : op (list char)
| OPushMode (m : mode) : op unit
| OPopMode : op unit
| OMode : op mode
| OEvalPnl (increment : bool) : op unit
| OValuePnlAdd (delta : Z) : op unit
| OStrPnlAdd (delta : Z) : op unit
| OInsertModes (idx : N) (ms : list mode) : op unit
| OSetNameFound (idx : N) : op unit
| OPushPending (b : bool) : op unit
| OPopPending : op unit
| OSetPending (b : bool) : op unit
| OPending : op bool
| OCheckpoint : op unit
| OClearCheckpoint : op unit
| ORollback : op unit
| OEmitError (k : ErrorKind) : op unit
| OPrepError (k : ErrorKind) : op unit
| OEmitPreparedError : op unit
| OSetMnl (n : N) : op unit
| OAssertDbg (f : st -> bool) (site : N) : op unit
| OUnreachable (site : N) : op unit
| OTick (limit : N) : op bool
| OLoopDetect (last : N * list mode) : op (bool * (N * list mode))
| OFinalEOF : op unit.

Inductive res (A : Type) : Type :=
| Done (a : A) (s : st)
| Panic (site : N) (s : st).
Arguments Done {A} a s.
Arguments Panic {A} site s.

(** panic sites inside the primitives *)
Definition SITE_ADD_TOKEN_START : N := 9001.
Definition SITE_ADD_TOKEN_ORDER : N := 9002.
Definition SITE_ADD_TOKEN_LINE : N := 9003.
Definition SITE_ADD_TOKEN_LINE_BYTE : N := 9004.
Definition SITE_ADD_LINE : N := 9005.
Definition SITE_CHECKPOINT : N := 9006.
Definition SITE_ADVANCE_BY : N := 9007.
Definition SITE_INSERT : N := 9008.
Definition SITE_SLICE_ORDER : N := 9009.
Definition SITE_PNL : N := 9010.
Definition SITE_LOOP_FUEL : N := 9099.

Definition clear_debt (s : st) : st :=
  let g := s_ghost s in
  s <| s_ghost := g <| g_lines_ok := g_lines_ok g && g_line_debt g |> <| g_line_debt := false |> |>.

Definition note_observe_lines (s : st) : st :=
  (* the line table is observed: no line feed may be pending *)
  let g := s_ghost s in
  s <| s_ghost := g <| g_lines_ok := g_lines_ok g && negb (g_line_debt g) |> |>.

Definition prep_error (s : st) (k : ErrorKind) : err_info :=
  let lls := match w_lines (s_buf s) with li :: _ => l_start li | [] => 0 end in
  mkErr k (cur_byte s) (cur_char s) (w_nlines (s_buf s)) (cur_char s - lls)
        (if w_ntoks (s_buf s) =? 0 then None else Some (w_ntoks (s_buf s) - 1)).

Definition push_error (s : st) (e : err_info) : st :=
  s <| s_errs := e :: s_errs s |> <| s_nerrs := s_nerrs s + 1 |>.

Definition emit_error (s : st) (k : ErrorKind) : st := push_error (note_observe_lines s) (prep_error s k).

Definition push_mode (s : st) (m : mode) : st :=
  s <| s_modes := m :: s_modes s |> <| s_nmodes := s_nmodes s + 1 |>
    <| s_ghost := (s_ghost s) <| g_max_modes := N.max (g_max_modes (s_ghost s)) (s_nmodes s + 1) |> |>.

Definition pop_mode (s : st) : st :=
  match s_modes s with
  | _ :: r => s <| s_modes := r |> <| s_nmodes := s_nmodes s - 1 |>
  | [] => push_mode (emit_error s E_InternalErrorEmptyModeStack) MDefault
  end.

(** [WorkTokenizedBuffer::add_line] *)
Definition buf_add_line (d : bool) (s : st) (byte char_ : N) : res N :=
  if d && negb (byte <=? s_srclen s) then Panic SITE_ADD_LINE s
  else
    let b := s_buf s in
    Done (w_nlines b)
         (s <| s_buf := b <| w_lines := mkLine byte char_ :: w_lines b |> <| w_nlines := w_nlines b + 1 |> |>).

(** line index of the last line, adding one if none exists ("should not be possible") *)
Definition last_line_or_add (d : bool) (s : st) : res N :=
  match last_line s with
  | Some l => Done l s
  | None => buf_add_line d s (cur_byte s) (cur_char s)
  end.

(** line [i] of the (reversed) line table *)
Definition line_at (b : wbuf) (i : N) : option line_info :=
  if i <? w_nlines b then nthN (w_lines b) (w_nlines b - 1 - i) else None.

(** [WorkTokenizedBuffer::add_token] with its debug assertions *)
Definition buf_add_token (d : bool) (s : st) (t : tok) : res unit :=
  let b := s_buf s in
  if d && negb (t_start t <=? s_srclen s) then Panic SITE_ADD_TOKEN_START s
  else if d && match w_toks b with lt :: _ => negb (t_byte lt <=? t_byte t) | [] => false end
       then Panic SITE_ADD_TOKEN_ORDER s
  else if d && negb (t_line t <=? w_nlines b) then Panic SITE_ADD_TOKEN_LINE s
  else if d && match line_at b (t_line t) with
               | Some li => negb (l_byte li <=? t_byte t)
               | None => true
               end
       then Panic SITE_ADD_TOKEN_LINE_BYTE s
  else Done tt (s <| s_buf := b <| w_toks := t :: w_toks b |> <| w_ntoks := w_ntoks b + 1 |> |>).

Definition utf8_push (acc : list N) (cs : list char) : list N :=
  fold_left (fun a c => rev_append (utf8_encode c) a) cs acc.

Definition add_string_literal (s : st) (text : list char) : (N * N) * st :=
  let b := s_buf s in
  let start := w_litlen b in
  let stop := start + blen text in
  ((start, stop), s <| s_buf := b <| w_lit := utf8_push (w_lit b) text |> <| w_litlen := stop |> |>).

Fixpoint drop {A} (n : nat) (l : list A) : list A :=
  match n, l with
  | O, _ => l
  | S k, _ :: r => drop k r
  | S _, [] => []
  end.

Definition truncate_rev {A} (l : list A) (cur_len new_len : N) : list A :=
  if new_len <? cur_len then drop (N.to_nat (cur_len - new_len)) l else l.

Fixpoint advance_by_loop (n : nat) (c : cursor) : cursor :=
  match n with
  | O => c
  | S k =>
    match c_rest c with
    | [] => c
    | x :: r => advance_by_loop k (mkCursor r (c_rem c - utf8_len x) (c_off c + 1) x)
    end
  end.

Fixpoint has_nl_before_last (l : list char) (n : nat) : bool :=
  match n, l with
  | S (S k), x :: r => (x =? NL) || has_nl_before_last r (S k)
  | _, _ => false
  end.

Fixpoint nth_is_nl (l : list char) (n : nat) : bool :=
  (* is the n-th consumed character (1-based, last of the run) a line feed *)
  match n, l with
  | S O, x :: _ => x =? NL
  | S k, _ :: r => nth_is_nl r k
  | _, _ => false
  end.

(** replace the element at bottom-index [idx] of a head-is-top stack of length [n] *)
Fixpoint update_nth {A} (k : nat) (f : A -> option A) (l : list A) : option (list A) :=
  match k, l with
  | O, x :: r => option_map (fun y => y :: r) (f x)
  | S k', x :: r => option_map (cons x) (update_nth k' f r)
  | _, [] => None
  end.

Definition wadd_signed32 (x : N) (dz : Z) : N :=
  Z.to_N ((Z.of_N x + dz) mod (Z.of_N two32)).

Definition scrub (s : st) : st :=
  s <| s_cur := (s_cur s) <| c_prev := 0 |> |>.

Definition exec (d : bool) {A} (o : op A) (s : st) : res A :=
  match o in op T return res T with
  | OGet => Done (scrub s) s
  | OAdvance =>
    let c := s_cur s in
    match c_rest c with
    | [] => Done None s
    | x :: r =>
      let g := s_ghost s in
      let g' := if g_line_debt g then g <| g_lines_ok := false |> else g in
      let g'' := if x =? NL then g' <| g_line_debt := true |> else g' in
      Done (Some x) (s <| s_cur := mkCursor r (c_rem c - utf8_len x) (c_off c + 1) x |> <| s_ghost := g'' |>)
    end
  | OAdvanceBy n =>
    if d && (n =? 0) then Panic SITE_ADVANCE_BY s
    else
      let c := s_cur s in
      let k := N.to_nat n in
      let g := s_ghost s in
      let bad := g_line_debt g && (0 <? n) || has_nl_before_last (c_rest c) k in
      let g' := if bad then g <| g_lines_ok := false |> else g in
      let g'' := if nth_is_nl (c_rest c) k then g' <| g_line_debt := true |> else g' in
      Done tt (s <| s_cur := advance_by_loop k c |> <| s_ghost := g'' |>)
  | OAddLine =>
    match buf_add_line d (clear_debt s) (cur_byte s) (cur_char s) with
    | Done _ s' => Done tt s'
    | Panic site s' => Panic site s'
    end
  | OStartToken =>
    let s := note_observe_lines s in
    match last_line_or_add d s with
    | Done l s' => Done tt (s' <| s_ct_byte := cur_byte s |> <| s_ct_start := cur_char s |> <| s_ct_line := l |>)
    | Panic site s' => Panic site s'
    end
  | OMarkIfNone =>
    match s_mark s with
    | Some _ => Done tt s
    | None =>
      let s := note_observe_lines s in
      match last_line_or_add d s with
      | Done l s' => Done tt (s' <| s_mark := Some (cur_byte s, cur_char s, l) |>)
      | Panic site s' => Panic site s'
      end
    end
  | OClearMark => Done tt (s <| s_mark := None |>)
  | OEmitToken ch ty pl =>
    buf_add_token d s (mkTok ch ty (s_ct_byte s) (s_ct_start s) (s_ct_line s) pl)
  | OEmitTokenAtMark ch ty pl =>
    match s_mark s with
    | Some (b, c, l) => buf_add_token d s (mkTok ch ty b c l pl)
    | None => Done tt s
    end
  | OUpdateLastToken ch ty pl =>
    let b := s_buf s in
    match w_toks b with
    | t :: r =>
      Done tt (s <| s_buf := b <| w_toks := mkTok ch ty (t_byte t) (t_start t) (t_line t) pl :: r |> |>)
    | [] =>
      buf_add_token d (emit_error s E_InternalErrorNoTokenToReplace)
                     (mkTok ch ty (s_ct_byte s) (s_ct_start s) (s_ct_line s) pl)
    end
  | ORetypeLastDefaultToLabel =>
    let b := s_buf s in
    let fix go (l : list tok) : option (list tok) :=
        match l with
        | [] => None
        | t :: r =>
          if is_default t then
            if tt_eqb (t_type t) T_MacroIdentifier
            then Some (mkTok (t_chan t) T_MacroLabel (t_byte t) (t_start t) (t_line t) (t_payload t) :: r)
            else None
          else option_map (cons t) (go r)
        end in
    match go (w_toks b) with
    | Some l => Done true (s <| s_buf := b <| w_toks := l |> |>)
    | None => Done false s
    end
  | OInsertSepBeforeLastDefault needs =>
    (* the [cfg(feature = "macro_sep")] block of lex_maybe_macro_call_args_or_label *)
    let b := s_buf s in
    let fix split (l acc : list tok) : option (list tok * tok * list tok) :=
        match l with
        | [] => None
        | t :: r => if is_default t then Some (rev acc, t, r) else split r (t :: acc)
        end in
    match split (w_toks b) [] with
    | None => Done tt s
    | Some (above, lt, below) =>
      let second := option_map t_type (find is_default below) in
      if needs second (t_type lt) then
        let sep := mkTok CH_DEFAULT T_MacroSep (t_byte lt) (t_start lt) (t_line lt) PNone in
        (* debug assertions of insert_token *)
        if d && negb (t_start lt <=? s_srclen s) then Panic SITE_INSERT s
        else if d && match below with p :: _ => negb (t_byte p <=? t_byte lt) | [] => false end then Panic SITE_INSERT s
        else if d && negb (t_line lt <=? w_nlines b) then Panic SITE_INSERT s
        else if d && match line_at b (t_line lt) with Some li => negb (l_byte li <=? t_byte lt) | None => true end
             then Panic SITE_INSERT s
        else Done tt (s <| s_buf := b <| w_toks := above ++ lt :: sep :: below |> <| w_ntoks := w_ntoks b + 1 |> |>)
      else Done tt s
    end
  | OAddStringLiteral text => let '(r, s') := add_string_literal s text in Done r s'
  | OAddStringLiteralFromSrc a bo =>
    let b := match bo with Some x => x | None => cur_byte s end in
    if d && negb (a <=? b) then Panic SITE_SLICE_ORDER s
    else
      match src_slice s a b with
      | Some text => let '(r, s') := add_string_literal s text in Done r s'
      | None => let '(r, s') := add_string_literal (emit_error s E_InternalErrorOutOfBounds) [] in Done r s'
      end
  | OSrcSlice a b =>
    match src_slice s a b with
    | Some text => Done text s
    | None => Done [] (emit_error s E_InternalErrorNoTokenText)
    end
  | OPushMode m => Done tt (push_mode s m)
  | OPopMode => Done tt (pop_mode s)
  | OMode =>
    match s_modes s with
    | m :: _ => Done m s
    | [] => Done MDefault (push_mode (emit_error s E_InternalErrorEmptyModeStack) MDefault)
    end
  | OEvalPnl increment =>
    match s_modes s with
    | MMacroEval f pnl :: r =>
      if increment then Done tt (s <| s_modes := MMacroEval f (wadd_signed32 pnl 1) :: r |>)
      else if d && (pnl =? 0) then Panic SITE_PNL s
      else Done tt (s <| s_modes := MMacroEval f (pnl - 1) :: r |>)
    | _ => Done tt s
    end
  | OValuePnlAdd dz =>
    match s_modes s with
    | MMacroCallValue f pnl :: r => Done tt (s <| s_modes := MMacroCallValue f (wadd_signed32 pnl dz) :: r |>)
    | [] => Done tt s
    | _ => Panic SITE_PNL s   (* unreachable!() *)
    end
  | OStrPnlAdd dz =>
    match s_modes s with
    | MMacroStrQuotedExpr m pnl :: r => Done tt (s <| s_modes := MMacroStrQuotedExpr m (wadd_signed32 pnl dz) :: r |>)
    | [] => Done tt s
    | _ => Panic SITE_PNL s
    end
  | OInsertModes idx ms =>
    (* three [Vec::insert(idx, _)] calls: panics if idx > len *)
    if s_nmodes s <? idx then Panic SITE_INSERT s
    else
      let k := N.to_nat (s_nmodes s - idx) in   (* position from the top *)
      Done tt (s <| s_modes := firstn k (s_modes s) ++ ms ++ skipn k (s_modes s) |>
                 <| s_nmodes := s_nmodes s + len ms |>)
  | OSetNameFound idx =>
    if idx <? s_nmodes s then
      match update_nth (N.to_nat (s_nmodes s - 1 - idx))
                       (fun m => match m with MMacroNameExpr _ e => Some (MMacroNameExpr true e) | _ => None end)
                       (s_modes s) with
      | Some l => Done tt (s <| s_modes := l |>)
      | None => Done tt (emit_error s E_InternalErrorUnexpectedModeStack)
      end
    else Done tt (emit_error s E_InternalErrorUnexpectedModeStack)
  | OPushPending b => Done tt (s <| s_pstat := b :: s_pstat s |>)
  | OPopPending =>
    match s_pstat s with
    | _ :: ((_ :: _) as r) => Done tt (s <| s_pstat := r |>)
    | _ => Done tt s
    end
  | OSetPending v =>
    match s_pstat s with
    | _ :: r => Done tt (s <| s_pstat := v :: r |>)
    | [] => Done tt ((emit_error s E_InternalErrorEmptyPendingStatStack) <| s_pstat := [v] |>)
    end
  | OPending =>
    match s_pstat s with
    | b :: _ => Done b s
    | [] => Done false ((emit_error s E_InternalErrorEmptyPendingStatStack) <| s_pstat := [false] |>)
    end
  | OCheckpoint =>
    if d && cp_is_some s then Panic SITE_CHECKPOINT s
    else
      let s := note_observe_lines s in
      let b := s_buf s in
      Done tt (s <| s_cp := Some (mkCp (s_cur s) (s_ct_byte s) (s_ct_start s) (s_ct_line s) (s_nmodes s)
                                       (w_nlines b) (w_ntoks b) (w_litlen b)) |>
                 <| s_ghost := (s_ghost s) <| g_errs_at_cp := s_nerrs s |> |>)
  | OClearCheckpoint => Done tt (s <| s_cp := None |>)
  | ORollback =>
    match s_cp s with
    | Some k =>
      let b := s_buf s in
      let g := s_ghost s in
      let nm := if k_nmodes k <? s_nmodes s then k_nmodes k else s_nmodes s in
      Done tt (s <| s_cp := None |> <| s_cur := k_cursor k |>
                 <| s_ct_byte := k_ct_byte k |> <| s_ct_start := k_ct_start k |> <| s_ct_line := k_ct_line k |>
                 <| s_modes := truncate_rev (s_modes s) (s_nmodes s) (k_nmodes k) |> <| s_nmodes := nm |>
                 <| s_buf := mkWbuf (truncate_rev (w_lines b) (w_nlines b) (k_nlines k))
                                    (N.min (w_nlines b) (k_nlines k))
                                    (truncate_rev (w_toks b) (w_ntoks b) (k_ntoks k))
                                    (N.min (w_ntoks b) (k_ntoks k))
                                    (truncate_rev (w_lit b) (w_litlen b) (k_litlen k))
                                    (N.min (w_litlen b) (k_litlen k)) |>
                 <| s_ghost := g <| g_line_debt := false |>
                                 <| g_err_ok := g_err_ok g && (s_nerrs s =? g_errs_at_cp g) |>
                                 <| g_rollbacks := g_rollbacks g + 1 |> |>)
    | None => Done tt (emit_error s E_InternalErrorMissingCheckpoint)
    end
  | OEmitError k => Done tt (emit_error s k)
  | OPrepError k =>
    let s1 := note_observe_lines s in
    Done tt (s1 <| s_perr := Some (prep_error s k) |>
                <| s_ghost := (s_ghost s1) <| g_errs_at_prep := s_nerrs s |> |>)
  | OEmitPreparedError =>
    match s_perr s with
    | Some e =>
      let g := s_ghost s in
      Done tt ((push_error s e) <| s_perr := None |>
                 <| s_ghost := g <| g_err_ok := g_err_ok g && (s_nerrs s =? g_errs_at_prep g) |> |>)
    | None => Done tt s
    end
  | OSetMnl n => Done tt (s <| s_mnl := n |>)
  | OAssertDbg f site => if d && negb (f s) then Panic site s else Done tt s
  | OUnreachable site => Panic site s
  | OTick limit =>
    let i := s_iters s + 1 in
    if limit <? i then Done true (s <| s_iters := i |> <| s_aborted := true |>)
    else Done false (s <| s_iters := i |>)
  | OLoopDetect last =>
    (* [last_state] of the debug-only loop detector, threaded by the main loop; without
       debug assertions the comparison is not made *)
    let ns := (c_rem (s_cur s), s_modes s) in
    let fired := (fst last =? fst ns) && modes_eqb (snd last) (snd ns) in
    if d && fired
    then Done (true, ns) ((emit_error s E_InternalErrorInfiniteLoop) <| s_loop_detected := true |>)
    else Done (false, ns) s
  | OFinalEOF =>
    (* the tail of finalize_lexing: EOF token at the cursor on the last line *)
    let s := note_observe_lines s in
    match last_line_or_add d s with
    | Done l s' => buf_add_token d s' (mkTok CH_DEFAULT T_EOF (cur_byte s) (cur_char s) l PNone)
    | Panic site s' => Panic site s'
    end
  end.

(** ** Programs *)
Inductive prog (A : Type) : Type :=
| Ret (a : A)
| Bind {B : Type} (o : op B) (k : B -> prog A).
Arguments Ret {A} a.
Arguments Bind {A B} o k.

Fixpoint bindP {A B} (p : prog A) (f : A -> prog B) : prog B :=
  match p with
  | Ret a => f a
  | Bind o k => Bind o (fun b => bindP (k b) f)
  end.

Fixpoint run (d : bool) {A} (p : prog A) (s : st) : res A :=
  match p with
  | Ret a => Done a s
  | Bind o k =>
    match exec d o s with
    | Done b s' => run d (k b) s'
    | Panic site s' => Panic site s'
    end
  end.

Definition do {A} (o : op A) : prog A := Bind o Ret.

Declare Scope prog_scope.
Delimit Scope prog_scope with prog.
Notation "x <- p ;; q" := (bindP p (fun x => q)) (at level 61, p at next level, right associativity) : prog_scope.
Notation "p ;; q" := (bindP p (fun _ => q)) (at level 61, right associativity) : prog_scope.
Notation "' pat <- p ;; q" := (bindP p (fun x => match x with pat => q end))
  (at level 61, pat pattern, p at next level, right associativity) : prog_scope.

(** ** Initial state ([Lexer::new]) and the detached buffer ([into_detached]) *)
Definition init_ghost : ghost := mkGhost false true 0 true 0 0 1.

(** The model keeps every offset relative to the start of the text *after* an optional leading
    byte-order mark; [into_detached] adds the mark's extent back.  (The Rust code works with
    absolute offsets throughout; all its offset arithmetic is translation invariant, which is
    what the C17 stream of the correspondence check exercises.)  [prev_char] starts as
    [EOF_CHAR] also after a mark: the debug assertions that read it run only after a further
    character has been consumed. *)
Definition split_bom (src : list char) : (N * N) * list char :=
  match src with
  | c :: r => if c =? BOM then ((utf8_len c, 1), r) else ((0, 0), src)
  | [] => ((0, 0), src)
  end.

Definition init (text : list char) : st :=
  let n := blen text in
  mkSt text n (mkCursor text n 0 EOF_CHAR)
       (mkWbuf [mkLine 0 0] 1 [] 0 [] 0)
       0 0 0
       [MDefault] 1 [] 0 None 0 [false] None None 0 false false init_ghost.

Definition shift_tok (bb bc : N) (t : tok) : tok :=
  mkTok (t_chan t) (t_type t) (t_byte t + bb) (t_start t + bc) (t_line t) (t_payload t).
Definition shift_line (bb bc : N) (l : line_info) : line_info := mkLine (l_byte l + bb) (l_start l + bc).
Definition shift_err (bb bc : N) (e : err_info) : err_info :=
  mkErr (e_kind e) (e_byte e + bb) (e_char e + bc) (e_line e) (e_col e) (e_last e).

Definition into_detached (bb bc : N) (s : st) : tbuf :=
  let b := s_buf s in
  let lines := match w_lines b with [] => [mkLine 0 0] | l => rev l end in
  let has_eof := match w_toks b with t :: _ => tt_eqb (t_type t) T_EOF | [] => false end in
  let toks := if has_eof then rev (w_toks b)
              else rev (mkTok CH_DEFAULT T_EOF (s_srclen s) (len (s_src s)) (len lines - 1) PNone :: w_toks b) in
  mkTbuf (map (shift_line bb bc) lines) (map (shift_tok bb bc) toks) (rev (w_lit b)).
