(** * Handlers, part 1: shared helpers, whitespace, comments, strings, macro variables,
    identifiers, datalines, numeric literals, symbols (mod.rs).  One definition per Rust
    function, same order of tests. Loops recurse on the shared fuel [F] (= 1 + number of
    characters of the source): every iteration consumes a character or exits. *)
From Coq Require Import NArith ZArith List Bool String.
From SasLexer Require Import Gen.TokenType Gen.ErrorKind Gen.Channel Model.Base Model.Core Model.Helpers Model.Numeric.
Import ListNotations.
Open Scope N_scope.
Open Scope prog_scope.

Definition ret {A} (a : A) : prog A := Ret a.
Definition get : prog st := do OGet.
Definition advance : prog (option char) := do OAdvance.
Definition advance_ : prog unit := _ <- do OAdvance ;; ret tt.
Definition advance_by (n : N) : prog unit := do (OAdvanceBy n).
Definition add_line : prog unit := do OAddLine.
Definition start_token : prog unit := do OStartToken.
Definition emit_token ch ty pl : prog unit := do (OEmitToken ch ty pl).
Definition emit ty : prog unit := do (OEmitToken CH_DEFAULT ty PNone).
Definition push_mode m : prog unit := do (OPushMode m).
Definition pop_mode : prog unit := do OPopMode.
Definition emit_error k : prog unit := do (OEmitError k).
Definition set_pending_stat b : prog unit := do (OSetPending b).
Definition checkpoint : prog unit := do OCheckpoint.
Definition clear_checkpoint : prog unit := do OClearCheckpoint.
Definition rollback : prog unit := do ORollback.
Definition assert_dbg (f : st -> bool) (site : N) : prog unit := do (OAssertDbg f site).
Definition fuel_out {A} (a : A) : prog A := do (OUnreachable SITE_LOOP_FUEL) ;; ret a.
Definition when (b : bool) (p : prog unit) : prog unit := if b then p else ret tt.

Definition peek_is (s : st) (p : char -> bool) : bool :=
  match peek s with Some c => p c | None => false end.

Definition mode_is (s : st) (p : mode -> bool) : bool :=
  match top_mode s with Some m => p m | None => p MDefault end.

Section Handlers.
  Variable F : nat.          (* loop fuel *)
  Variable msep : bool.      (* the macro_sep feature *)

  (** [Cursor::eat_while] *)
  Fixpoint eat_while_loop (p : char -> bool) (f : nat) : prog unit :=
    match f with
    | O => fuel_out tt
    | S f' => s <- get ;; if peek_is s p then advance_ ;; eat_while_loop p f' else ret tt
    end.
  Definition eat_while (p : char -> bool) : prog unit := eat_while_loop p F.

  (** [lex_ws] *)
  Fixpoint lex_ws_loop (f : nat) : prog unit :=
    match f with
    | O => fuel_out tt
    | S f' =>
      c <- advance ;;
      when (match c with Some x => x =? NL | None => false end) add_line ;;
      s <- get ;;
      if peek_is s is_whitespace then lex_ws_loop f' else ret tt
    end.
  Definition lex_ws : prog unit :=
    assert_dbg (fun s => peek_is s is_whitespace) 101 ;;
    lex_ws_loop F ;;
    emit_token CH_HIDDEN T_WS PNone.

  (** [lex_cstyle_comment] *)
  Fixpoint cstyle_loop (f : nat) : prog bool :=   (* true = closed *)
    match f with
    | O => fuel_out true
    | S f' =>
      c <- advance ;;
      match c with
      | None => ret false
      | Some x =>
        s <- get ;;
        if (x =? c_star) && peek_is s (fun y => y =? c_slash) then
          advance_ ;; emit_token CH_COMMENT T_CStyleComment PNone ;; ret true
        else when (x =? NL) add_line ;; cstyle_loop f'
      end
    end.
  Definition lex_cstyle_comment : prog unit :=
    assert_dbg (fun s => peek_is s (fun c => c =? c_slash)) 102 ;;
    assert_dbg (fun s => peek_next s =? c_star) 103 ;;
    advance_ ;; advance_ ;;
    closed <- cstyle_loop F ;;
    if closed then ret tt
    else emit_token CH_COMMENT T_CStyleComment PNone ;; emit_error E_UnterminatedComment.

  (** [lex_string_expression_start] *)
  Definition lex_string_expression_start (allow_stat : bool) : prog unit :=
    assert_dbg (fun s => peek_is s (fun c => c =? c_dquote)) 104 ;;
    advance_ ;; emit T_StringExprStart ;; push_mode (MStringExpr allow_stat).

  (** [resolve_string_literal_payload] *)
  Definition resolve_string_literal_payload (lit_start cur_lit_end last_end : N) (text_end : option N)
             (has_escapes : bool) : prog payload :=
    if (lit_start =? cur_lit_end) && negb has_escapes then ret PNone
    else '(_, final_end) <- do (OAddStringLiteralFromSrc last_end text_end) ;; ret (PStr lit_start final_end).

  (** [resolve_string_literal_ending] *)
  Definition is_c (a b : string) (c : char) : bool := (c =? ch a) || (c =? ch b).
  Definition resolve_string_literal_ending : prog TokenType :=
    assert_dbg (fun s => let p := c_prev (s_cur s) in (p =? c_dquote) || (p =? c_squote)) 105 ;;
    s <- get ;;
    match peek s with
    | Some c =>
      if is_c "b" "B" c then advance_ ;; ret T_BitTestingLiteral
      else if is_c "d" "D" c then
        (if is_c "t" "T" (peek_next s) then advance_ ;; advance_ ;; ret T_DateTimeLiteral
         else advance_ ;; ret T_DateLiteral)
      else if is_c "n" "N" c then advance_ ;; ret T_NameLiteral
      else if is_c "t" "T" c then advance_ ;; ret T_TimeLiteral
      else if is_c "x" "X" c then advance_ ;; ret T_HexStringLiteral
      else ret T_StringLiteral
    | None => ret T_StringLiteral
    end.

  (** [lex_single_quoted_str] *)
  Fixpoint squote_loop (f : nat) (lit_start lit_end last_end : N) : prog (bool * N * N * N) :=
    (* result: closed?, lit_start, lit_end, last_end *)
    match f with
    | O => fuel_out (true, lit_start, lit_end, last_end)
    | S f' =>
      c <- advance ;;
      match c with
      | None => ret (false, lit_start, lit_end, last_end)
      | Some x =>
        if x =? c_squote then
          s <- get ;;
          if peek_is s (fun y => y =? c_squote) then
            '(ns, ne) <- do (OAddStringLiteralFromSrc last_end None) ;;
            advance_ ;;
            s' <- get ;;
            squote_loop f' (N.min lit_start ns) ne (cur_byte s')
          else ret (true, lit_start, lit_end, last_end)
        else when (x =? NL) add_line ;; squote_loop f' lit_start lit_end last_end
      end
    end.

  Definition lex_single_quoted_str : prog unit :=
    assert_dbg (fun s => peek_is s (fun c => c =? c_squote)) 106 ;;
    advance_ ;;
    s0 <- get ;;
    let ls := w_litlen (s_buf s0) in
    '(closed, lit_start, lit_end, last_end) <- squote_loop F ls ls (cur_byte s0) ;;
    if negb closed then
      pl <- resolve_string_literal_payload lit_start lit_end last_end None false ;;
      emit_token CH_DEFAULT T_StringLiteral pl ;;
      emit_error E_UnterminatedStringLiteral
    else
      s1 <- get ;;
      let text_end := Some (cur_byte s1 - 1) in
      ty <- resolve_string_literal_ending ;;
      '(pl, err) <-
        (if tt_eqb ty T_HexStringLiteral then
           s2 <- get ;;
           text <- do (OSrcSlice (s_ct_byte s2) (cur_byte s2)) ;;
           match parse_sas_hex_string text with
           | inl v => '(a, b) <- do (OAddStringLiteral v) ;; ret (Some (PStr a b), None)
           | inr e => ret (None, Some e)
           end
         else ret (None, None)) ;;
      pl' <- match pl with
             | Some p => ret p
             | None => resolve_string_literal_payload lit_start lit_end last_end text_end false
             end ;;
      emit_token CH_DEFAULT ty pl' ;;
      match err with Some e => emit_error e | None => ret tt end.

  (** [lex_double_quoted_literal] *)
  Definition lex_double_quoted_literal (pl : payload) : prog unit :=
    assert_dbg (fun s => peek_is s (fun c => c =? c_dquote)) 107 ;;
    advance_ ;;
    ty <- resolve_string_literal_ending ;;
    pl' <- (if tt_eqb ty T_HexStringLiteral then
              s <- get ;;
              text <- do (OSrcSlice (s_ct_byte s - 1) (cur_byte s)) ;;   (* saturating_sub(1) *)
              match parse_sas_hex_string text with
              | inl v => '(a, b) <- do (OAddStringLiteral v) ;; ret (PStr a b)
              | inr e => emit_error e ;; ret pl
              end
            else ret pl) ;;
    do (OUpdateLastToken CH_DEFAULT ty pl') ;;
    pop_mode.

  (** [handle_unterminated_str_expr] *)
  Definition last_is_start (s : st) : bool :=
    match last_tok_type s with Some t => tt_eqb t T_StringExprStart | None => false end.

  Definition handle_unterminated_str_expr (pl : payload) : prog unit :=
    assert_dbg (fun s => match peek s with None => true | Some _ => false end) 108 ;;
    s <- get ;;
    (if last_is_start s then do (OUpdateLastToken CH_DEFAULT T_StringLiteral pl)
     else emit_token CH_DEFAULT T_StringExprEnd pl) ;;
    emit_error E_UnterminatedStringLiteral ;;
    pop_mode.

  (** [lex_str_expr_text] *)
  Fixpoint str_expr_text_loop (f : nat) (lit_start lit_end last_end : N) : prog unit :=
    match f with
    | O => fuel_out tt
    | S f' =>
      s <- get ;;
      match peek s with
      | None =>
        pl <- resolve_string_literal_payload lit_start lit_end last_end None false ;;
        handle_unterminated_str_expr pl
      | Some c =>
        if c =? c_amp then
          let '(is_m, n) := is_macro_amp (rest s) in
          if is_m then
            pl <- resolve_string_literal_payload lit_start lit_end last_end None false ;;
            emit_token CH_DEFAULT T_StringExprText pl
          else advance_by n ;; str_expr_text_loop f' lit_start lit_end last_end
        else if c =? c_pct then
          if is_macro_percent (peek_next s) false then
            pl <- resolve_string_literal_payload lit_start lit_end last_end None false ;;
            emit_token CH_DEFAULT T_StringExprText pl
          else advance_ ;; str_expr_text_loop f' lit_start lit_end last_end
        else if c =? NL then advance_ ;; add_line ;; str_expr_text_loop f' lit_start lit_end last_end
        else if c =? c_dquote then
          if peek_next s =? c_dquote then
            advance_ ;;
            '(ns, ne) <- do (OAddStringLiteralFromSrc last_end None) ;;
            advance_ ;;
            s' <- get ;;
            str_expr_text_loop f' (N.min lit_start ns) ne (cur_byte s')
          else
            let lis := last_is_start s in
            pl <- resolve_string_literal_payload lit_start lit_end last_end None false ;;
            if lis then lex_double_quoted_literal pl
            else emit_token CH_DEFAULT T_StringExprText pl
        else advance_ ;; str_expr_text_loop f' lit_start lit_end last_end
      end
    end.

  Definition lex_str_expr_text : prog unit :=
    s <- get ;;
    let ls := w_litlen (s_buf s) in
    str_expr_text_loop F ls ls (s_ct_byte s).

  (** [lex_macro_var_expr] *)
  Fixpoint emit_resolve_ops (ops : list N) : prog unit :=
    match ops with
    | [] => ret tt
    | p :: r =>
      advance_by (pow2 p) ;;
      emit_token CH_DEFAULT T_MacroVarResolve (PInt p) ;;
      start_token ;;
      emit_resolve_ops r
    end.

  Fixpoint mvar_loop (f : nat) (stack : list N) : prog unit :=
    (* [stack]: resolve ops, last element = top (Vec order) *)
    match f with
    | O => fuel_out tt
    | S f' =>
      match stack with
      | [] => ret tt
      | _ =>
        s <- get ;;
        match peek s with
        | Some c =>
          if is_valid_unicode_sas_name_start c then
            eat_while is_xid_continue ;; emit T_MacroString ;; start_token ;; mvar_loop f' stack
          else if c =? c_dot then
            advance_ ;; emit T_MacroVarTerm ;; start_token ;; mvar_loop f' (removelast stack)
          else if c =? c_amp then
            let '(is_m, n) := is_macro_amp (rest s) in
            if negb is_m then ret tt
            else
              let following := get_macro_resolve_ops_from_amps n in
              emit_resolve_ops following ;;
              match following with
              | [] => do (OUnreachable 110)
              | maxp :: _ => mvar_loop f' (filter (fun p => maxp <? p) stack ++ following)
              end
          else ret tt
        | None => ret tt
        end
      end
    end.

  Definition lex_macro_var_expr : prog bool :=
    assert_dbg (fun s => peek_is s (fun c => c =? c_amp)) 109 ;;
    s <- get ;;
    let '(is_m, n) := is_macro_amp (rest s) in
    if negb is_m then ret false
    else
      let ops := get_macro_resolve_ops_from_amps n in
      emit_resolve_ops ops ;;
      mvar_loop F ops ;;
      ret true.

  (** [lex_datalines] *)
  Fixpoint datalines_la (l : list char) : bool :=
    match l with
    | c :: r => if c =? c_semi then true else if is_whitespace c then datalines_la r else false
    | [] => false
    end.

  Fixpoint datalines_head_loop (f : nat) : prog unit :=
    match f with
    | O => fuel_out tt
    | S f' =>
      c <- advance ;;
      match c with
      | Some x => if x =? NL then add_line ;; datalines_head_loop f'
                  else if is_whitespace x then datalines_head_loop f' else ret tt
      | None => ret tt
      end
    end.

  Fixpoint starts_with_semis (k : nat) (l : list char) : bool :=
    match k with
    | O => true
    | S k' => match l with c :: r => (c =? c_semi) && starts_with_semis k' r | [] => false end
    end.

  Fixpoint datalines_body_loop (f : nat) (ending_len : N) : prog unit :=
    match f with
    | O => fuel_out tt
    | S f' =>
      s <- get ;;
      match peek s with
      | Some c =>
        if c =? NL then advance_ ;; add_line ;; datalines_body_loop f' ending_len
        else if c =? c_semi then
          if c_rem (s_cur s) <? ending_len then emit_error E_UnterminatedDatalines
          else if starts_with_semis (N.to_nat ending_len) (rest s) then ret tt
          else advance_ ;; datalines_body_loop f' ending_len
        else advance_ ;; datalines_body_loop f' ending_len
      | None =>
        if c_rem (s_cur s) <? ending_len then emit_error E_UnterminatedDatalines
        else ret tt  (* ending_len = 0 cannot happen *)
      end
    end.

  Fixpoint eat_semis (k : nat) : prog unit :=
    match k with
    | O => ret tt
    | S k' => s <- get ;; if peek_is s (fun c => c =? c_semi) then advance_ ;; eat_semis k' else ret tt
    end.

  Definition lex_datalines (is4 : bool) : prog bool :=
    s <- get ;;
    let prev_ok := match last_default_type s with Some t => tt_eqb t T_SEMI | None => true end in
    if negb prev_ok then ret false
    else if negb (datalines_la (rest s)) then ret false
    else
      datalines_head_loop F ;;
      emit T_DatalinesStart ;;
      start_token ;;
      let ending_len := if is4 then 4 else 1 in
      datalines_body_loop F ending_len ;;
      emit T_DatalinesData ;;
      start_token ;;
      eat_semis (N.to_nat ending_len) ;;
      emit T_SEMI ;;
      ret true.

  (** [lex_identifier] *)
  Definition DATALINES_KW : list (list char) := map string_chars ["DATALINES"; "CARDS"; "LINES"]%string.
  Definition DATALINES4_KW : list (list char) := map string_chars ["DATALINES4"; "CARDS4"; "LINES4"]%string.

  Definition lex_identifier : prog unit :=
    assert_dbg (fun s => peek_is s (fun c => (c =? 95) || is_xid_start c)) 111 ;;
    eat_while ident_char ;;
    s <- get ;;
    text <- do (OSrcSlice (s_ct_byte s) (cur_byte s)) ;;
    if negb (forallb is_ascii text) || (MAX_KEYWORDS_LEN <? blen text) then emit T_Identifier
    else
      let ident := upper text in
      match parse_keyword ident with
      | Some t => emit t
      | None =>
        if existsb (chars_eqb ident) DATALINES_KW then
          b <- lex_datalines false ;; when (negb b) (emit T_Identifier)
        else if existsb (chars_eqb ident) DATALINES4_KW then
          b <- lex_datalines true ;; when (negb b) (emit T_Identifier)
        else emit T_Identifier
      end.

  (** [lex_macro_def_identifier] *)
  Definition lex_macro_def_identifier (next_char : char) (is_argument : bool) : prog bool :=
    assert_dbg (fun s => mode_is s (fun m => match m with MMacroDefName | MMacroDefArg => true | _ => false end)) 112 ;;
    if is_valid_sas_name_start next_char then
      eat_while is_valid_sas_name_continue ;; emit T_Identifier ;; ret true
    else
      emit_error (if is_argument then E_InvalidMacroDefArgName else E_InvalidMacroDefName) ;; ret false.

  (** [lex_numeric_literal] *)
  Definition lex_numeric_literal (seen_dot : bool) : prog unit :=
    assert_dbg (fun s => peek_is s (fun c => is_ascii_digit c || (c =? c_dot))) 113 ;;
    s <- get ;;
    let view := rest s in
    let hex_result := if seen_dot then None else try_parse_hex_integer view in
    let dec_result := try_parse_decimal view (negb seen_dot) true in
    let is_x c := (c =? ch "x") || (c =? ch "X") in
    let '(result, check_x) :=
        match dec_result, hex_result with
        | Some dr, Some hr =>
          if n_len hr <? n_len dr then (dr, false)
          else if n_len dr <? n_len hr then (hr, true)
          else
            (* byte at index [length]: only an ASCII byte can be x/X *)
            match nthN view (n_len hr) with
            | Some c => if is_x c then (hr, true) else (dr, false)
            | None => (dr, false)
            end
        | Some dr, None => (dr, false)
        | None, Some hr => (hr, true)
        | None, None =>
          (mkNum T_FloatLiteral (PFloat 0) (len (take_while is_ascii_digit view)) (Some E_InvalidNumericLiteral), false)
        end in
    (if n_len result =? 0 then do (OUnreachable 114) else ret tt) ;;
    advance_by (n_len result) ;;
    missing_x <- (if check_x then
                    s' <- get ;;
                    if peek_is s' is_x then advance_ ;; ret false else ret true
                  else ret false) ;;
    emit_token CH_DEFAULT (n_type result) (n_payload result) ;;
    match n_err result with Some e => emit_error e | None => ret tt end ;;
    when missing_x (emit_error E_UnterminatedHexNumericLiteral).

  (** [lex_predicted_comment] *)
  Fixpoint pc_open_loop (f : nat) : prog unit :=
    match f with
    | O => fuel_out tt
    | S f' =>
      c <- advance ;;
      match c with
      | Some x => if x =? NL then add_line ;; pc_open_loop f'
                  else if x =? c_semi then ret tt else pc_open_loop f'
      | None => ret tt
      end
    end.

  Fixpoint pc_macro_loop (f : nat) : prog bool :=   (* false = rolled back *)
    match f with
    | O => fuel_out true
    | S f' =>
      c <- advance ;;
      match c with
      | Some x =>
        if x =? NL then add_line ;; pc_macro_loop f'
        else if x =? c_pct then
          s <- get ;;
          if peek_is s is_valid_unicode_sas_name_start then rollback ;; ret false
          else pc_macro_loop f'
        else if x =? c_semi then ret true
        else pc_macro_loop f'
      | None => ret true
      end
    end.

  Definition lex_predicted_comment : prog bool :=
    pend <- do OPending ;;
    if pend then ret false
    else
      s <- get ;;
      if s_mnl s =? 0 then
        pc_open_loop F ;; emit_token CH_COMMENT T_PredictedCommentStat PNone ;; ret true
      else
        checkpoint ;;
        ok <- pc_macro_loop F ;;
        if ok then clear_checkpoint ;; emit_token CH_COMMENT T_PredictedCommentStat PNone ;; ret true
        else ret false.

  (** [lex_char_format] *)
  Definition char_format_len (l : list char) : option N :=
    match l with
    | [] => None
    | c :: r =>
      let '(n1, l1) := if is_valid_unicode_sas_name_start c
                       then (1 + count_while is_xid_continue r, drop_while is_xid_continue r) else (0, l) in
      let n2 := count_while is_ascii_digit l1 in
      match drop_while is_ascii_digit l1 with
      | x :: q => if x =? c_dot then Some (n1 + n2 + 1 + count_while is_ascii_digit q) else None
      | [] => None
      end
    end.

  Definition lex_char_format : prog bool :=
    assert_dbg (fun s => c_prev (s_cur s) =? ch "$") 115 ;;
    s <- get ;;
    match char_format_len (rest s) with
    | None => ret false
    | Some n => advance_by n ;; emit T_CharFormat ;; ret true
    end.

  (** [lex_symbols] *)
  Definition one (t : TokenType) : prog unit := advance_ ;; emit t.
  Definition one_or_two (second : char) (t2 t1 : TokenType) : prog unit :=
    advance_ ;; s <- get ;;
    if peek_is s (fun c => c =? second) then advance_ ;; emit t2 else emit t1.

  Definition lex_symbols (c : char) : prog unit :=
    if c =? c_star then
      advance_ ;;
      b <- lex_predicted_comment ;;
      if b then ret tt
      else s <- get ;; if peek_is s (fun x => x =? c_star) then advance_ ;; emit T_STAR2 else emit T_STAR
    else if c =? c_lparen then one T_LPAREN
    else if c =? c_rparen then one T_RPAREN
    else if c =? ch "{" then one T_LCURLY
    else if c =? ch "}" then one T_RCURLY
    else if c =? ch "[" then one T_LBRACK
    else if c =? ch "]" then one T_RBRACK
    else if c =? ch "!" then one_or_two (ch "!") T_EXCL2 T_EXCL
    else if c =? 166 then one_or_two 166 T_BPIPE2 T_BPIPE
    else if c =? ch "|" then one_or_two (ch "|") T_PIPE2 T_PIPE
    else if (c =? 172) || (c =? ch "^") || (c =? ch "~") || (c =? 8728) then one_or_two c_eq T_NE T_NOT
    else if c =? ch "+" then one T_PLUS
    else if c =? ch "-" then one T_MINUS
    else if c =? ch "<" then
      advance_ ;; s <- get ;;
      if peek_is s (fun x => x =? c_eq) then advance_ ;; emit T_LE
      else if peek_is s (fun x => x =? ch ">") then advance_ ;; emit T_LTGT
      else emit T_LT
    else if c =? ch ">" then
      advance_ ;; s <- get ;;
      if peek_is s (fun x => x =? c_eq) then advance_ ;; emit T_GE
      else if peek_is s (fun x => x =? ch "<") then advance_ ;; emit T_GTLT
      else emit T_GT
    else if c =? c_dot then
      s <- get ;;
      if is_ascii_digit (peek_next s) then lex_numeric_literal true else one T_DOT
    else if c =? c_comma then one T_COMMA
    else if c =? ch ":" then one T_COLON
    else if c =? c_eq then one_or_two c_star T_SoundsLike T_ASSIGN
    else if c =? ch "$" then
      advance_ ;; b <- lex_char_format ;; when (negb b) (emit T_DOLLAR)
    else if c =? ch "@" then one T_AT
    else if c =? ch "#" then one T_HASH
    else if c =? ch "?" then one T_QUESTION
    else advance_ ;; emit_token CH_HIDDEN T_CatchAll PNone.

  (** [lex_macro_comment] *)
  Fixpoint mc_loop (f : nat) (q : option bool) : prog unit :=   (* q: Some true = single quote open *)
    match f with
    | O => fuel_out tt
    | S f' =>
      c <- advance ;;
      match c with
      | None => ret tt
      | Some x =>
        match q with
        | None =>
          if x =? c_semi then ret tt
          else if x =? NL then add_line ;; mc_loop f' None
          else if x =? c_squote then mc_loop f' (Some true)
          else if x =? c_dquote then mc_loop f' (Some false)
          else mc_loop f' None
        | Some single =>
          if x =? NL then add_line ;; mc_loop f' q
          else if (x =? c_squote) && single then mc_loop f' None
          else if (x =? c_dquote) && negb single then mc_loop f' None
          else mc_loop f' q
        end
      end
    end.

  Definition lex_macro_comment : prog unit :=
    assert_dbg (fun s => peek_is s (fun c => c =? c_pct)) 116 ;;
    assert_dbg (fun s => peek_next s =? c_star) 117 ;;
    advance_ ;; advance_ ;;
    mc_loop F None ;;
    emit_token CH_COMMENT T_MacroComment PNone.
End Handlers.
