(** * Handlers, part 2: macro calls, statements and their argument modes (mod.rs). *)
From Coq Require Import NArith ZArith List Bool String.
From SasLexer Require Import Gen.TokenType Gen.ErrorKind Gen.Channel Model.Base Model.Core Model.Helpers Model.Numeric Model.Lexer1.
Import ListNotations.
Open Scope N_scope.
Open Scope prog_scope.

(** ** Packed flags (lexer_mode.rs) *)
Definition NA_NONE : N := 0.
Definition NA_SINGLE : N := 1.
Definition NA_EVAL : N := 2.
Definition NA_MACRO_ARG : N := 3.

Definition eval_flags (float_mode : bool) (next_arg : N) (term_stat term_semi parens_mask_comma : bool) : N :=
  (if float_mode then 1 else 0) + (if next_arg =? 0 then 0 else 2) + (if term_stat then 4 else 0)
  + (if term_semi then 8 else 0) + (if parens_mask_comma then 16 else 0) + 32 * next_arg.

Definition ef_float (f : N) : bool := N.testbit f 0.
Definition ef_term_comma (f : N) : bool := N.testbit f 1.
Definition ef_term_stat (f : N) : bool := N.testbit f 2.
Definition ef_term_semi (f : N) : bool := N.testbit f 3.
Definition ef_parens_mask_comma (f : N) : bool := N.testbit f 4.
Definition ef_follow (f : N) : N :=
  let v := N.shiftr f 5 in if (v =? 1) || (v =? 2) || (v =? 3) then v else 0.

Definition CTX_BUILTIN : N := 0.
Definition CTX_CALL : N := 1.
Definition CTX_DEF : N := 2.

Definition arg_flags (context : N) (populate term_comma : bool) : N :=
  context + (if populate then 4 else 0) + (if term_comma then 8 else 0).

Definition af_context (f : N) : N :=
  let v := N.land f 3 in if (v =? 1) || (v =? 2) then v else 0.
Definition af_populate (f : N) : bool := N.testbit f 2.
Definition af_term_comma (f : N) : bool := N.testbit f 3.

Definition WSM : mode := MWsOrCStyleCommentOnly.
Definition EXP (t : TokenType) : mode := MExpectSymbol t CH_DEFAULT.

Fixpoint push_modes (ms : list mode) : prog unit :=
  match ms with [] => ret tt | m :: r => push_mode m ;; push_modes r end.

(** ** The mode pre-loads of the [expect_*] helpers, in push order *)
Definition PRE_str_call (mask_macro : bool) : list mode :=
  [MExpectSymbol T_RPAREN CH_HIDDEN; MMacroStrQuotedExpr mask_macro 0; MExpectSymbol T_LPAREN CH_HIDDEN; WSM].
Definition PRE_eval_call (is_sysevalf : bool) : list mode :=
  [EXP T_RPAREN;
   MMacroEval (eval_flags is_sysevalf (if is_sysevalf then NA_MACRO_ARG else NA_NONE) false false false) 0;
   WSM; EXP T_LPAREN; WSM].
Definition PRE_scan_or_substr (is_scan : bool) : list mode :=
  [EXP T_RPAREN;
   MMacroEval (eval_flags false (if is_scan then NA_MACRO_ARG else NA_SINGLE) false false true) 0;
   WSM; EXP T_COMMA; MMacroCallValue (arg_flags CTX_BUILTIN false true) 0; WSM; EXP T_LPAREN; WSM].
Definition PRE_builtin_args : list mode :=
  [EXP T_RPAREN; MMacroCallValue (arg_flags CTX_BUILTIN true true) 0; WSM; EXP T_LPAREN; WSM].
Definition PRE_builtin_one_arg : list mode :=
  [EXP T_RPAREN; MMacroCallValue (arg_flags CTX_BUILTIN false false) 0; WSM; EXP T_LPAREN; WSM].
Definition PRE_builtin_named : list mode :=
  [EXP T_RPAREN; MMacroCallArgOrValue (arg_flags CTX_CALL true true); WSM; EXP T_LPAREN; WSM].
Definition PRE_sysfunc : list mode :=
  [EXP T_RPAREN; MMaybeTailMacroArgValue; WSM; EXP T_RPAREN;
   MMacroEval (eval_flags true NA_EVAL false false true) 0; WSM; EXP T_LPAREN; WSM;
   MMacroNameExpr false (Some E_MissingSysfuncFuncName); WSM; EXP T_LPAREN; WSM].
Definition PRE_until_while : list mode :=
  [MExpectSemiOrEOF; WSM; EXP T_RPAREN; MMacroEval (eval_flags false NA_NONE false false false) 0; WSM; EXP T_LPAREN; WSM].
Definition PRE_let (err : ErrorKind) : list mode :=
  [MExpectSemiOrEOF; MMacroSemiTerminatedTextExpr; WSM; EXP T_ASSIGN; WSM; MMacroNameExpr false (Some err); WSM].
Definition PRE_name_then_opts : list mode :=
  [MExpectSemiOrEOF; MMacroStatOptionsTextExpr; WSM; EXP T_FSLASH; WSM;
   MMacroNameExpr false (Some E_InvalidOrOutOfOrderStatement); WSM].
Definition PRE_syscall : list mode :=
  [MExpectSemiOrEOF; WSM; EXP T_RPAREN; MMacroEval (eval_flags true NA_EVAL false false true) 0; WSM;
   EXP T_LPAREN; WSM; MMacroNameExpr false (Some E_MissingSyscallRoutineName); WSM].
Definition PRE_do_var (found : bool) (err : option ErrorKind) : list mode :=
  [MMacroEval (eval_flags false NA_NONE true true false) 0; WSM; EXP T_ASSIGN; WSM; MMacroNameExpr found err].

(** classification of the keyword types by the arm of [dispatch_macro_call_or_stat] they take *)
Inductive kw_arm : Set :=
| A_str (mask : bool) | A_eval (sysevalf : bool) | A_scan | A_substr | A_builtin_args | A_one_arg
| A_named | A_ident | A_none | A_sysfunc | A_ws_only | A_semi | A_end | A_put | A_opts | A_mend
| A_do | A_to_by (is_to : bool) | A_until_while | A_let | A_local_global (is_local : bool) | A_if
| A_name_opts | A_macro | A_syscall | A_unknown.

Definition kw_arm_of (t : TokenType) : kw_arm :=
  match t with
  | T_KwmStr => A_str false | T_KwmNrStr => A_str true
  | T_KwmEval => A_eval false | T_KwmSysevalf => A_eval true
  | T_KwmScan | T_KwmQScan | T_KwmKScan | T_KwmQKScan => A_scan
  | T_KwmSubstr | T_KwmQSubstr | T_KwmKSubstr | T_KwmQKSubstr => A_substr
  | T_KwmDatatyp | T_KwmLowcase | T_KwmKLowcase | T_KwmCmpres | T_KwmQCmpres | T_KwmKCmpres | T_KwmQKCmpres
  | T_KwmLeft | T_KwmQLeft | T_KwmKLeft | T_KwmQKLeft | T_KwmTrim | T_KwmQTrim | T_KwmKTrim | T_KwmQKTrim => A_builtin_args
  | T_KwmIndex | T_KwmKIndex | T_KwmLength | T_KwmKLength | T_KwmQLowcase | T_KwmQKLowcase | T_KwmUpcase
  | T_KwmKUpcase | T_KwmQUpcase | T_KwmQKUpcase | T_KwmSysmexecname | T_KwmSysprod | T_KwmQuote | T_KwmNrQuote
  | T_KwmBquote | T_KwmNrBquote | T_KwmSuperq | T_KwmUnquote | T_KwmSymExist | T_KwmSymGlobl | T_KwmSymLocal
  | T_KwmSysget | T_KwmSysmacexec | T_KwmSysmacexist => A_one_arg
  | T_KwmCompstor | T_KwmValidchs | T_KwmVerify | T_KwmKVerify => A_named
  | T_MacroIdentifier => A_ident
  | T_KwmSysmexecdepth => A_none
  | T_KwmSysfunc | T_KwmQSysfunc => A_sysfunc
  | T_KwmInclude | T_KwmList | T_KwmThen | T_KwmElse => A_ws_only
  | T_KwmReturn | T_KwmRun | T_KwmSysmstoreclear => A_semi
  | T_KwmEnd => A_end
  | T_KwmPut | T_KwmSysexec => A_put
  | T_KwmAbort | T_KwmDisplay | T_KwmGoto | T_KwmInput | T_KwmSymdel | T_KwmSyslput | T_KwmSysrput | T_KwmWindow => A_opts
  | T_KwmMend => A_mend
  | T_KwmDo => A_do
  | T_KwmTo => A_to_by true | T_KwmBy => A_to_by false
  | T_KwmUntil | T_KwmWhile => A_until_while
  | T_KwmLet => A_let
  | T_KwmLocal => A_local_global true | T_KwmGlobal => A_local_global false
  | T_KwmIf => A_if
  | T_KwmCopy | T_KwmSysmacdelete => A_name_opts
  | T_KwmMacro => A_macro
  | T_KwmSyscall => A_syscall
  | _ => A_unknown
  end.

Section Handlers2.
  Variable F : nat.
  Variable msep : bool.

  Definition is_arg_mode (m : mode) : bool :=
    match m with MStringExpr _ | MMacroCallArgOrValue _ | MMacroCallValue _ _ => true | _ => false end.

  (** [dispatch_macro_call_or_stat] *)
  Definition dispatch_macro_call_or_stat (kw : TokenType) (allow_label : bool) : prog unit :=
    (if msep then
       s <- get ;;
       when (needs_macro_sep (last_default_type s) kw
             && match top_mode s with Some m => negb (is_arg_mode m) | None => true end)
            (emit T_MacroSep)
     else ret tt) ;;
    emit_token (if tt_eqb kw T_KwmStr || tt_eqb kw T_KwmNrStr then CH_HIDDEN else CH_DEFAULT) kw PNone ;;
    match kw_arm_of kw with
    | A_str mask => push_modes (PRE_str_call mask)
    | A_eval f => push_modes (PRE_eval_call f)
    | A_scan => push_modes (PRE_scan_or_substr true)
    | A_substr => push_modes (PRE_scan_or_substr false)
    | A_builtin_args => push_modes PRE_builtin_args
    | A_one_arg => push_modes PRE_builtin_one_arg
    | A_named => push_modes PRE_builtin_named
    | A_ident => checkpoint ;; push_modes [MMaybeMacroCallArgsOrLabel allow_label; WSM]
    | A_none => ret tt
    | A_sysfunc => push_modes PRE_sysfunc
    | A_ws_only => push_mode WSM
    | A_semi => push_modes [MExpectSemiOrEOF; WSM]
    | A_end => push_modes [MExpectSemiOrEOF; WSM] ;; do OPopPending
    | A_put => push_modes [MExpectSemiOrEOF; MMacroSemiTerminatedTextExpr; WSM]
    | A_opts => push_modes [MExpectSemiOrEOF; MMacroStatOptionsTextExpr; WSM]
    | A_mend =>
      push_modes [MExpectSemiOrEOF; MMacroStatOptionsTextExpr; WSM] ;;
      s <- get ;; do (OSetMnl (s_mnl s - 1)) ;; do OPopPending
    | A_do =>
      push_modes [MMacroDo; WSM] ;;
      b <- do OPending ;; do (OPushPending b)
    | A_to_by is_to =>
      push_modes [MExpectSemiOrEOF; MMacroEval (eval_flags false NA_NONE is_to true false) 0; WSM]
    | A_until_while => push_modes PRE_until_while
    | A_let => push_modes (PRE_let E_InvalidMacroLetVarName)
    | A_local_global l => push_modes [MMacroLocalGlobal l; WSM]
    | A_if => push_modes [MMacroEval (eval_flags false NA_NONE true true false) 0; WSM]
    | A_name_opts => push_modes PRE_name_then_opts
    | A_macro =>
      push_modes [MExpectSemiOrEOF; MMacroStatOptionsTextExpr; WSM; MMaybeMacroDefArgs; WSM; MMacroDefName; WSM] ;;
      s <- get ;; do (OSetMnl (s_mnl s + 1)) ;; do (OPushPending false)
    | A_syscall => push_modes PRE_syscall
    | A_unknown => do (OUnreachable 201)
    end.

  (** result of [lex_macro_call] *)
  Inductive macro_kw_type : Set := KW_None | KW_MacroCall | KW_MacroStat.

  (** [lex_macro_call] *)
  Definition lex_macro_call (allow_quote_call allow_stat_to_follow : bool) : prog macro_kw_type :=
    assert_dbg (fun s => peek_is s (fun c => c =? c_pct)) 202 ;;
    s <- get ;;
    if negb (is_valid_unicode_sas_name_start (peek_next s)) then ret KW_None
    else
      '(tok_type, n) <-
        match lex_macro_call_stat_or_label (tl (rest s)) with
        | inl r => ret r
        | inr e => emit_error e ;; ret (T_MacroIdentifier, 0)
        end ;;
      if negb (is_macro_stat_tok_type tok_type) then
        if negb allow_quote_call && is_macro_quote_call_tok_type tok_type then ret KW_None
        else advance_by (n + 1) ;; dispatch_macro_call_or_stat tok_type false ;; ret KW_MacroCall
      else
        when (negb allow_stat_to_follow) (emit_error E_OpenCodeRecursionError) ;;
        ret KW_MacroStat.

  (** [lex_macro_identifier] *)
  Definition lex_macro_identifier (allow_label : bool) : prog unit :=
    assert_dbg (fun s => peek_is s (fun c => c =? c_pct)) 203 ;;
    assert_dbg (fun s => is_valid_unicode_sas_name_start (peek_next s)) 204 ;;
    advance_ ;;
    s <- get ;;
    '(kw, n) <-
      match lex_macro_call_stat_or_label (rest s) with
      | inl r => ret r
      | inr e => emit_error e ;; ret (T_MacroIdentifier, 0)
      end ;;
    (* the real cursor is consumed by the keyword scanner (also when it reports an error) *)
    (let cnt := count_while ident_char (rest s) in when (0 <? cnt) (advance_by cnt)) ;;
    dispatch_macro_call_or_stat kw allow_label.

  (** [maybe_emit_empty_macro_string_in_eval] *)
  Definition maybe_emit_empty_macro_string_in_eval (next : option TokenType) : prog unit :=
    let expr_end := match next with None => true | Some t => tt_in t [T_RPAREN; T_KwAND; T_KwOR] end in
    let op_follows := match next with Some t => is_macro_eval_logical_op t | None => false end in
    if expr_end || op_follows then
      s <- get ;;
      match last_default_type s with
      | Some p =>
        when (is_macro_eval_logical_op p
              || tt_in p [T_LPAREN; T_ASSIGN; T_KwmIf; T_KwmTo; T_KwmBy; T_COMMA; T_KwAND; T_KwOR])
             (emit T_MacroStringEmpty)
      | None => ret tt
      end
    else ret tt.

  Definition in_eval_mode (s : st) : bool :=
    mode_is s (fun m => match m with MMacroEval _ _ => true | _ => false end).

  Definition MNEMONIC_START (c : char) : bool :=
    existsb (fun x => lc c =? ch x) ["e"; "n"; "l"; "g"; "a"; "o"; "i"]%string
    && (is_ascii_lower c || is_ascii_upper c).

  (** [lex_macro_eval_operator] *)
  Definition lex_macro_eval_operator (c : char) : prog bool :=
    assert_dbg in_eval_mode 205 ;;
    s <- get ;;
    let nx := peek_next s in
    let finish (t : TokenType) (extra : N) (pre : prog unit) : prog bool :=
        pre ;;
        maybe_emit_empty_macro_string_in_eval (Some t) ;;
        advance_by (1 + extra) ;;
        emit t ;;
        push_mode WSM ;;
        ret true in
    if c =? c_star then (if nx =? c_star then finish T_STAR2 1 (ret tt) else finish T_STAR 0 (ret tt))
    else if c =? c_lparen then finish T_LPAREN 0 (do (OEvalPnl true))
    else if c =? c_rparen then finish T_RPAREN 0 (do (OEvalPnl false))
    else if c =? ch "|" then finish T_PIPE 0 (ret tt)
    else if (c =? 172) || (c =? ch "^") || (c =? ch "~") then
      (if nx =? c_eq then finish T_NE 1 (ret tt) else finish T_NOT 0 (ret tt))
    else if c =? ch "+" then finish T_PLUS 0 (ret tt)
    else if c =? ch "-" then finish T_MINUS 0 (ret tt)
    else if c =? ch "<" then (if nx =? c_eq then finish T_LE 1 (ret tt) else finish T_LT 0 (ret tt))
    else if c =? ch ">" then (if nx =? c_eq then finish T_GE 1 (ret tt) else finish T_GT 0 (ret tt))
    else if c =? c_eq then finish T_ASSIGN 0 (ret tt)
    else if c =? ch "#" then finish T_HASH 0 (ret tt)
    else if MNEMONIC_START c then
      match is_macro_eval_mnemonic (rest s) with
      | (Some t, extra) => finish t extra (ret tt)
      | (None, _) => ret false
      end
    else ret false.

  (** [lex_macro_string_in_macro_eval_context] *)
  Definition is_eval_sym (c : char) : bool :=
    existsb (fun x => c =? ch x) ["*"; "("; ")"; "|"; "^"; "~"; "+"; "-"; "<"; ">"; "="; "#"]%string || (c =? 172).

  (** loop state: try_lexing_numeric, may_precede_mnemonic *)
  Fixpoint eval_string_loop (f : nat) (flags : N) (term_comma : bool) (try_num may_mn : bool) : prog bool :=
    match f with
    | O => fuel_out try_num
    | S f' =>
      s <- get ;;
      match peek s with
      | None => ret try_num
      | Some c =>
        let has_mark := match s_mark s with Some _ => true | None => false end in
        if is_eval_sym c then ret try_num
        else if (c =? c_squote) || (c =? c_dquote) then do OClearMark ;; ret false
        else if c =? c_slash then
          (if peek_next s =? c_star then do OClearMark ;; ret false else ret try_num)
        else if (c =? c_semi) && ef_term_semi flags then ret try_num
        else if (c =? c_comma) && term_comma then ret try_num
        else if c =? c_amp then
          (if fst (is_macro_amp (rest s)) then do OClearMark ;; ret false else ret try_num)
        else if c =? c_pct then
          if is_macro_percent (peek_next s) true then
            (if negb (is_macro_stat (rest s)) then do OClearMark ;; ret false else ret try_num)
          else advance_ ;; do OClearMark ;; eval_string_loop f' flags term_comma false true
        else if c =? NL then do OMarkIfNone ;; advance_ ;; add_line ;; eval_string_loop f' flags term_comma try_num may_mn
        else if is_whitespace c then do OMarkIfNone ;; advance_ ;; eval_string_loop f' flags term_comma try_num may_mn
        else if MNEMONIC_START c && (has_mark || may_mn) then
          match is_macro_eval_mnemonic (rest s) with
          | (Some _, _) => ret try_num
          | (None, _) => do OClearMark ;; advance_ ;; eval_string_loop f' flags term_comma false may_mn
          end
        else
          advance_ ;;
          (if has_mark then do OClearMark else ret tt) ;;
          eval_string_loop f' flags term_comma (if has_mark then false else try_num) (negb (is_xid_continue c))
      end
    end.

  Definition lex_macro_string_in_macro_eval_context (flags : N) (term_comma : bool) : prog unit :=
    assert_dbg (fun s => mode_is s (fun m => match m with MMacroEval g _ => g =? flags | _ => false end)) 206 ;;
    do OClearMark ;;
    try_num <- eval_string_loop F flags term_comma true true ;;
    s <- get ;;
    let end_byte := match s_mark s with Some (b, _, _) => b | None => cur_byte s end in
    text <- do (OSrcSlice (s_ct_byte s) end_byte) ;;
    (match text with
     | [] => ret tt
     | first :: _ =>
       if try_num then
         let lastc := last text 0 in
         let is_x := (lastc =? ch "x") || (lastc =? ch "X") in
         if is_x && is_ascii_digit first then
           match try_parse_hex_integer (removelast text) with
           | Some r =>
             if (match n_err r with None => true | Some _ => false end) && (n_len r =? blen text - 1)
             then emit_token CH_DEFAULT (n_type r) (n_payload r) else emit T_MacroString
           | None => emit T_MacroString
           end
         else
           match try_parse_decimal text true (ef_float flags) with
           | Some r =>
             if (match n_err r with None => true | Some _ => false end) && (n_len r =? blen text)
             then emit_token CH_DEFAULT (n_type r) (n_payload r) else emit T_MacroString
           | None => emit T_MacroString
           end
       else emit T_MacroString
     end) ;;
    s' <- get ;;
    (match s_mark s' with
     | Some _ => do (OEmitTokenAtMark CH_HIDDEN T_WS PNone)
     | None => ret tt
     end) ;;
    do OClearMark.

  (** [dispatch_mode_macro_eval] *)
  Definition dispatch_mode_macro_eval (c : char) (flags pnl : N) : prog unit :=
    assert_dbg (fun s => mode_is s (fun m => mode_eqb m (MMacroEval flags pnl))) 207 ;;
    start_token ;;
    let term_comma := ef_term_comma flags && ((pnl =? 0) || negb (ef_parens_mask_comma flags)) in
    s <- get ;;
    if c =? c_squote then lex_single_quoted_str F
    else if c =? c_dquote then lex_string_expression_start false
    else if c =? c_slash then
      (if peek_next s =? c_star then lex_cstyle_comment F
       else advance_ ;; emit T_FSLASH ;; push_mode WSM)
    else if c =? c_amp then
      b <- lex_macro_var_expr F ;;
      when (negb b) (eat_while F (fun x => x =? c_amp) ;; emit T_AMP ;; push_mode WSM)
    else if c =? c_pct then
      k <- lex_macro_call true (ef_term_stat flags) ;;
      match k with
      | KW_MacroStat =>
        maybe_emit_empty_macro_string_in_eval None ;;
        pop_mode ;;
        if ef_term_stat flags && ef_term_semi flags then
          m <- do OMode ;;
          match m with MExpectSemiOrEOF => pop_mode | _ => ret tt end
        else ret tt
      | KW_None =>
        advance_ ;;
        s' <- get ;;
        let second := match peek s' with Some x => x | None => c_space end in
        if is_macro_eval_quotable_op second then _ <- lex_macro_eval_operator second ;; ret tt
        else lex_macro_string_in_macro_eval_context flags term_comma
      | KW_MacroCall => ret tt
      end
    else if (c =? c_rparen) && (pnl =? 0) then
      maybe_emit_empty_macro_string_in_eval None ;; pop_mode
    else if (c =? c_comma) && term_comma then
      maybe_emit_empty_macro_string_in_eval None ;;
      pop_mode ;;
      (let fm := ef_follow flags in
       if fm =? NA_SINGLE then push_mode (MMacroEval (eval_flags (ef_float flags) NA_NONE false false false) 0)
       else if fm =? NA_EVAL then push_mode (MMacroEval (eval_flags (ef_float flags) NA_EVAL false false (ef_parens_mask_comma flags)) 0)
       else if fm =? NA_MACRO_ARG then push_mode (MMacroCallValue (arg_flags CTX_BUILTIN true true) 0)
       else ret tt) ;;
      advance_ ;; emit T_COMMA ;; push_mode WSM
    else if (c =? c_semi) && ef_term_semi flags then
      maybe_emit_empty_macro_string_in_eval None ;; pop_mode
    else
      b <- lex_macro_eval_operator c ;;
      when (negb b) (lex_macro_string_in_macro_eval_context flags term_comma).

  (** [dispatch_macro_name_expr] *)
  Definition dispatch_macro_name_expr (c : char) (first_token : bool) (err : option ErrorKind) : prog unit :=
    assert_dbg (fun s => mode_is s (fun m => match m with
                                             | MMacroNameExpr f e => negb (Bool.eqb f first_token) && opt_ek_eqb e err
                                             | _ => false end)) 208 ;;
    start_token ;;
    s <- get ;;
    let start_idx := s_nmodes s - 1 in
    let pop_and_check :=
        (if first_token then match err with Some e => emit_error e | None => ret tt end else ret tt) ;; pop_mode in
    let update := when first_token (do (OSetNameFound start_idx)) in
    if (c =? c_slash) && (peek_next s =? c_star) then lex_cstyle_comment F
    else if c =? c_amp then
      b <- lex_macro_var_expr F ;;
      if negb b then pop_and_check else update
    else if c =? c_pct then
      k <- lex_macro_call false false ;;
      match k with
      | KW_MacroCall => update
      | _ => pop_and_check
      end
    else if is_valid_unicode_sas_name_start c || (negb first_token && is_xid_continue c) then
      eat_while F is_xid_continue ;; emit T_MacroString ;; update
    else pop_and_check.

  (** [lex_macro_string_unrestricted] *)
  Fixpoint unrestricted_loop (f : nat) : prog unit :=
    match f with
    | O => fuel_out tt
    | S f' =>
      s <- get ;;
      match peek s with
      | None => emit T_MacroString
      | Some c =>
        if (c =? c_squote) || (c =? c_dquote) then emit T_MacroString
        else if (c =? c_slash) && (peek_next s =? c_star) then emit T_MacroString
        else if c =? c_amp then
          let '(is_m, n) := is_macro_amp (rest s) in
          if is_m then emit T_MacroString else advance_by n ;; unrestricted_loop f'
        else if c =? c_pct then
          if is_macro_percent (peek_next s) false then emit T_MacroString
          else advance_ ;; unrestricted_loop f'
        else if c =? NL then advance_ ;; add_line ;; unrestricted_loop f'
        else if c =? c_semi then emit T_MacroString ;; pop_mode
        else advance_ ;; unrestricted_loop f'
      end
    end.
  Definition lex_macro_string_unrestricted : prog unit :=
    assert_dbg (fun s => mode_is s (fun m => mode_eqb m MMacroSemiTerminatedTextExpr)) 209 ;;
    unrestricted_loop F.

  (** [dispatch_macro_semi_term_text_expr] *)
  Definition dispatch_macro_semi_term_text_expr (c : char) : prog unit :=
    assert_dbg (fun s => mode_is s (fun m => mode_eqb m MMacroSemiTerminatedTextExpr)) 210 ;;
    start_token ;;
    s <- get ;;
    if c =? c_squote then lex_single_quoted_str F
    else if c =? c_dquote then lex_string_expression_start false
    else if c =? c_slash then
      (if peek_next s =? c_star then lex_cstyle_comment F else advance_ ;; lex_macro_string_unrestricted)
    else if c =? c_amp then
      b <- lex_macro_var_expr F ;;
      when (negb b) (eat_while F (fun x => x =? c_amp) ;; lex_macro_string_unrestricted)
    else if c =? c_pct then
      k <- lex_macro_call true false ;;
      match k with
      | KW_MacroStat => pop_mode
      | KW_None => advance_ ;; lex_macro_string_unrestricted
      | KW_MacroCall => ret tt
      end
    else if c =? NL then advance_ ;; add_line ;; lex_macro_string_unrestricted
    else if c =? c_semi then pop_mode
    else advance_ ;; lex_macro_string_unrestricted.

  (** [lex_macro_string_stat_opts] *)
  Fixpoint stat_opts_loop (f : nat) : prog unit :=
    match f with
    | O => fuel_out tt
    | S f' =>
      s <- get ;;
      match peek s with
      | None => emit T_MacroString
      | Some c =>
        if (c =? c_squote) || (c =? c_dquote) || (c =? c_slash) || (c =? c_eq) then emit T_MacroString
        else if is_whitespace c then emit T_MacroString
        else if c =? c_amp then
          let '(is_m, n) := is_macro_amp (rest s) in
          if is_m then emit T_MacroString else advance_by n ;; stat_opts_loop f'
        else if c =? c_pct then
          if is_macro_percent (peek_next s) false then emit T_MacroString
          else advance_ ;; stat_opts_loop f'
        else if c =? c_semi then emit T_MacroString ;; pop_mode
        else advance_ ;; stat_opts_loop f'
      end
    end.
  Definition lex_macro_string_stat_opts : prog unit :=
    assert_dbg (fun s => mode_is s (fun m => mode_eqb m MMacroStatOptionsTextExpr)) 211 ;;
    stat_opts_loop F.

  (** [dispatch_macro_stat_opts_text_expr] *)
  Definition dispatch_macro_stat_opts_text_expr (c : char) : prog unit :=
    assert_dbg (fun s => mode_is s (fun m => mode_eqb m MMacroStatOptionsTextExpr)) 212 ;;
    start_token ;;
    s <- get ;;
    if c =? c_squote then lex_single_quoted_str F
    else if c =? c_dquote then lex_string_expression_start false
    else if c =? c_slash then
      (if peek_next s =? c_star then lex_cstyle_comment F else advance_ ;; emit T_FSLASH)
    else if c =? c_amp then
      b <- lex_macro_var_expr F ;;
      when (negb b) (eat_while F (fun x => x =? c_amp) ;; lex_macro_string_stat_opts)
    else if c =? c_pct then
      k <- lex_macro_call true false ;;
      match k with
      | KW_MacroStat => pop_mode
      | KW_None => advance_ ;; lex_macro_string_stat_opts
      | KW_MacroCall => ret tt
      end
    else if c =? c_semi then pop_mode
    else if is_whitespace c then lex_ws F
    else if c =? c_eq then advance_ ;; emit T_ASSIGN
    else advance_ ;; lex_macro_string_stat_opts.
End Handlers2.
