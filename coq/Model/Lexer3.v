(** * Handlers, part 3: macro call arguments, macro definitions, %str, string expressions,
    open code dispatch, and the driver ([lex_token], [finalize_lexing], [lex]). *)
From Coq Require Import NArith ZArith List Bool String.
From SasLexer Require Import Gen.TokenType Gen.ErrorKind Gen.Channel Model.Base Model.Core Model.Helpers Model.Numeric Model.Lexer1 Model.Lexer2.
Import ListNotations.
Open Scope N_scope.
Open Scope prog_scope.

Section Handlers3.
  Variable F : nat.
  Variable msep : bool.

  Definition next_arg_mode (flags : N) : mode :=
    let c := af_context flags in
    if c =? CTX_CALL then MMacroCallArgOrValue flags
    else if c =? CTX_DEF then MMacroDefArg
    else MMacroCallValue flags 0.

  Definition lex_comma_and_next_arg (flags : N) : prog unit :=
    when (af_populate flags)
         (start_token ;; advance_ ;; emit T_COMMA ;; push_mode (next_arg_mode flags) ;; push_mode WSM).

  (** [lex_maybe_macro_call_args_or_label] *)
  Definition lex_maybe_macro_call_args_or_label (c : char) (check_label : bool) : prog unit :=
    assert_dbg (fun s => mode_is s (fun m => mode_eqb m (MMaybeMacroCallArgsOrLabel check_label))) 301 ;;
    if c =? c_lparen then
      start_token ;; advance_ ;; emit T_LPAREN ;; clear_checkpoint ;; pop_mode ;;
      push_modes [EXP T_RPAREN; MMacroCallArgOrValue (arg_flags CTX_CALL true true); WSM]
    else if (c =? ch ":") && check_label then
      ok <- do ORetypeLastDefaultToLabel ;;
      when (negb ok) (emit_error E_InternalErrorNoTokenToReplace) ;;
      (if msep then do (OInsertSepBeforeLastDefault needs_macro_sep) else ret tt) ;;
      start_token ;; advance_ ;; emit_token CH_HIDDEN T_COLON PNone ;; clear_checkpoint ;; pop_mode
    else
      assert_dbg cp_is_some 302 ;;
      rollback.

  (** [lex_maybe_macro_call_arg_assign] *)
  Definition lex_maybe_macro_call_arg_assign (c : char) (flags : N) : prog unit :=
    assert_dbg (fun s => mode_is s (fun m => mode_eqb m (MMaybeMacroCallArgAssign flags))) 303 ;;
    pop_mode ;;
    if c =? c_eq then
      start_token ;; advance_ ;; emit T_ASSIGN ;; clear_checkpoint ;;
      push_modes [MMacroCallValue flags 0; WSM]
    else
      assert_dbg cp_is_some 304 ;;
      rollback ;;
      push_mode (MMacroCallValue flags 0).

  (** [lex_maybe_tail_macro_call_arg_value] *)
  Definition lex_maybe_tail_macro_call_arg_value (c : char) : prog unit :=
    assert_dbg (fun s => mode_is s (fun m => mode_eqb m MMaybeTailMacroArgValue)) 305 ;;
    pop_mode ;;
    when (c =? c_comma)
         (start_token ;; advance_ ;; emit T_COMMA ;;
          push_modes [MMacroCallValue (arg_flags CTX_BUILTIN false false) 0; WSM]).

  (** [dispatch_macro_call_arg_or_value] *)
  Definition dispatch_macro_call_arg_or_value (c : char) (flags : N) : prog unit :=
    assert_dbg (fun s => mode_is s (fun m => mode_eqb m (MMacroCallArgOrValue flags))) 306 ;;
    let safe_pop := clear_checkpoint ;; pop_mode in
    let switch_to_value :=
        s <- get ;;
        (if cp_is_some s then rollback else pop_mode) ;;
        push_mode (MMacroCallValue flags 0) in
    let push_check_assign :=
        s <- get ;;
        when (negb (cp_is_some s)) checkpoint ;;
        push_modes [MMaybeMacroCallArgAssign flags; WSM] in
    start_token ;;
    s <- get ;;
    if c =? c_slash then
      (if peek_next s =? c_star then push_check_assign else switch_to_value)
    else if c =? c_amp then
      b <- lex_macro_var_expr F ;;
      if b then clear_checkpoint else switch_to_value
    else if c =? c_pct then
      let nx := peek_next s in
      if nx =? c_star then clear_checkpoint ;; start_token ;; lex_macro_comment F
      else if is_valid_unicode_sas_name_start nx then
        clear_checkpoint ;;
        let mode_stack_len := s_nmodes s in
        start_token ;;
        lex_macro_identifier msep false ;;
        s' <- get ;;
        if match last_tok_type s' with Some t => is_macro_stat_tok_type t | None => false end then ret tt
        else do (OInsertModes mode_stack_len [MMakeCheckpoint; WSM; MMaybeMacroCallArgAssign flags])
      else switch_to_value
    else if (c =? c_comma) && af_term_comma flags then
      safe_pop ;; lex_comma_and_next_arg flags
    else if c =? c_rparen then safe_pop
    else if is_whitespace c then push_check_assign
    else
      let first_token :=
          negb (match last_tok_type s with
                | Some t => tt_in t [T_MacroVarTerm; T_MacroIdentifier; T_MacroString; T_RPAREN]
                | None => false end) in
      if is_valid_unicode_sas_name_start c || (negb first_token && is_xid_continue c) then
        checkpoint ;; eat_while F is_xid_continue ;; emit T_MacroString
      else if (c =? c_eq) && negb first_token then
        start_token ;; advance_ ;; emit T_ASSIGN ;; safe_pop ;;
        push_modes [MMacroCallValue flags 0; WSM]
      else switch_to_value.

  (** [lex_macro_string_in_macro_call_arg_value] *)
  Definition emit_value_update_nesting (pnl : N) (local : Z) : prog unit :=
    emit T_MacroString ;;
    if (local =? 0)%Z then ret tt
    else
      assert_dbg (fun _ => (0 <=? Z.of_N pnl + local)%Z) 307 ;;
      do (OValuePnlAdd local).

  Fixpoint value_string_loop (f : nat) (flags pnl : N) (local : Z) : prog unit :=
    match f with
    | O => fuel_out tt
    | S f' =>
      s <- get ;;
      match peek s with
      | None => emit_value_update_nesting pnl local
      | Some c =>
        let eff := wadd_signed32 pnl local in
        if (c =? c_squote) || (c =? c_dquote) then emit_value_update_nesting pnl local
        else if (c =? c_slash) && (peek_next s =? c_star) then emit_value_update_nesting pnl local
        else if c =? c_amp then
          let '(is_m, n) := is_macro_amp (rest s) in
          if is_m then emit_value_update_nesting pnl local
          else advance_by n ;; value_string_loop f' flags pnl local
        else if c =? c_pct then
          if is_macro_percent (peek_next s) false then emit_value_update_nesting pnl local
          else advance_ ;; value_string_loop f' flags pnl local
        else if c =? NL then advance_ ;; add_line ;; value_string_loop f' flags pnl local
        else if c =? c_lparen then advance_ ;; value_string_loop f' flags pnl (local + 1)%Z
        else if c =? c_rparen then
          if eff =? 0 then emit T_MacroString ;; pop_mode
          else advance_ ;; value_string_loop f' flags pnl (local - 1)%Z
        else if (c =? c_comma) && (eff =? 0) && af_term_comma flags then
          emit T_MacroString ;; pop_mode ;; lex_comma_and_next_arg flags
        else advance_ ;; value_string_loop f' flags pnl local
      end
    end.

  Definition lex_macro_string_in_macro_call_arg_value (flags pnl : N) : prog unit :=
    assert_dbg (fun s => mode_is s (fun m => match m with MMacroCallValue g _ => g =? flags | _ => false end)) 308 ;;
    value_string_loop F flags pnl 0%Z.

  (** [dispatch_macro_call_arg_value] *)
  Definition dispatch_macro_call_arg_value (c : char) (flags pnl : N) : prog unit :=
    assert_dbg (fun s => mode_is s (fun m => mode_eqb m (MMacroCallValue flags pnl))) 309 ;;
    start_token ;;
    s <- get ;;
    let str := lex_macro_string_in_macro_call_arg_value flags pnl in
    if c =? c_squote then lex_single_quoted_str F
    else if c =? c_dquote then lex_string_expression_start true
    else if c =? c_slash then
      (if peek_next s =? c_star then lex_cstyle_comment F else advance_ ;; str)
    else if c =? c_amp then
      b <- lex_macro_var_expr F ;;
      when (negb b) (eat_while F (fun x => x =? c_amp) ;; str)
    else if c =? c_pct then
      let nx := peek_next s in
      if nx =? c_star then start_token ;; lex_macro_comment F
      else if is_valid_unicode_sas_name_start nx then start_token ;; lex_macro_identifier msep false
      else advance_ ;; str
    else if c =? NL then advance_ ;; add_line ;; str
    else if (c =? c_comma) && (pnl =? 0) && af_term_comma flags then
      pop_mode ;; lex_comma_and_next_arg flags
    else if (c =? c_rparen) && (pnl =? 0) then pop_mode
    else str.

  (** [lex_maybe_macro_def_args] *)
  Definition lex_maybe_macro_def_args (c : char) : prog unit :=
    pop_mode ;;
    when (c =? c_lparen)
         (start_token ;; advance_ ;; emit T_LPAREN ;; push_modes [EXP T_RPAREN; MMacroDefArg; WSM]).

  (** [dispatch_macro_def_arg] *)
  Definition dispatch_macro_def_arg (c : char) : prog unit :=
    assert_dbg (fun s => mode_is s (fun m => mode_eqb m MMacroDefArg)) 310 ;;
    if c =? c_rparen then pop_mode
    else
      start_token ;;
      ok <- lex_macro_def_identifier F c true ;;
      if negb ok then pop_mode ;; push_mode (MMacroCallArgOrValue (arg_flags CTX_DEF true true))
      else pop_mode ;; push_modes [MMacroDefNextArgOrDefaultValue; WSM].

  (** [lex_macro_def_next_arg_or_default_value] *)
  Definition lex_macro_def_next_arg_or_default_value (c : char) : prog unit :=
    pop_mode ;;
    if c =? c_eq then
      start_token ;; advance_ ;; emit T_ASSIGN ;;
      push_modes [MMacroCallValue (arg_flags CTX_DEF true true) 0; WSM]
    else if c =? c_comma then
      start_token ;; advance_ ;; emit T_COMMA ;; push_modes [MMacroDefArg; WSM]
    else ret tt.

  (** [lex_macro_string_in_str_call] *)
  Definition is_str_quoted (c : char) : bool :=
    (c =? c_dquote) || (c =? c_squote) || (c =? c_pct) || (c =? c_lparen) || (c =? c_rparen).

  Definition emit_str_update_nesting (pnl : N) (local : Z) (pl : payload) : prog unit :=
    emit_token CH_DEFAULT T_MacroString pl ;;
    if (local =? 0)%Z then ret tt
    else
      assert_dbg (fun _ => (0 <=? Z.of_N pnl + local)%Z) 311 ;;
      do (OStrPnlAdd local).

  Fixpoint str_call_loop (f : nat) (mask : bool) (pnl : N) (local : Z)
           (lit_start lit_end last_end : N) (has_quoted : bool) : prog unit :=
    match f with
    | O => fuel_out tt
    | S f' =>
      s <- get ;;
      let finish :=
          pl <- resolve_string_literal_payload lit_start lit_end last_end None has_quoted ;;
          emit_str_update_nesting pnl local pl in
      match peek s with
      | None => finish
      | Some c =>
        let eff := wadd_signed32 pnl local in
        let continue_ := str_call_loop f' mask pnl local lit_start lit_end last_end has_quoted in
        if (c =? c_squote) || (c =? c_dquote) then finish
        else if (c =? c_slash) && (peek_next s =? c_star) then finish
        else if (c =? c_amp) && negb mask then
          let '(is_m, n) := is_macro_amp (rest s) in
          if is_m then finish else advance_by n ;; continue_
        else if c =? c_pct then
          if is_str_quoted (peek_next s) then
            '(ns, ne) <- do (OAddStringLiteralFromSrc last_end None) ;;
            advance_ ;;
            s' <- get ;;
            advance_ ;;
            str_call_loop f' mask pnl local (N.min lit_start ns) ne (cur_byte s') true
          else if negb mask && is_macro_percent (peek_next s) false then finish
          else advance_ ;; continue_
        else if c =? NL then advance_ ;; add_line ;; continue_
        else if c =? c_lparen then
          advance_ ;; str_call_loop f' mask pnl (local + 1)%Z lit_start lit_end last_end has_quoted
        else if c =? c_rparen then
          if eff =? 0 then
            pl <- resolve_string_literal_payload lit_start lit_end last_end None has_quoted ;;
            emit_token CH_DEFAULT T_MacroString pl ;; pop_mode
          else advance_ ;; str_call_loop f' mask pnl (local - 1)%Z lit_start lit_end last_end has_quoted
        else advance_ ;; continue_
      end
    end.

  Definition lex_macro_string_in_str_call (mask : bool) (pnl : N) : prog unit :=
    assert_dbg (fun s => mode_is s (fun m => mode_eqb m (MMacroStrQuotedExpr mask pnl))) 312 ;;
    s <- get ;;
    let ls := w_litlen (s_buf s) in
    str_call_loop F mask pnl 0%Z ls ls (s_ct_byte s) false.

  (** [dispatch_macro_str_quoted_expr] *)
  Definition dispatch_macro_str_quoted_expr (c : char) (mask : bool) (pnl : N) : prog unit :=
    assert_dbg (fun s => mode_is s (fun m => mode_eqb m (MMacroStrQuotedExpr mask pnl))) 313 ;;
    start_token ;;
    s <- get ;;
    let str := lex_macro_string_in_str_call mask pnl in
    if c =? c_squote then lex_single_quoted_str F
    else if c =? c_dquote then lex_string_expression_start true
    else if c =? c_slash then
      (if peek_next s =? c_star then lex_cstyle_comment F else advance_ ;; str)
    else if (c =? c_amp) && negb mask then
      b <- lex_macro_var_expr F ;;
      when (negb b) (eat_while F (fun x => x =? c_amp) ;; str)
    else if (c =? c_pct) && negb mask then
      let nx := peek_next s in
      if is_str_quoted nx then str
      else if is_valid_unicode_sas_name_start nx then start_token ;; lex_macro_identifier msep false
      else advance_ ;; str
    else if c =? NL then advance_ ;; add_line ;; str
    else if (c =? c_rparen) && (pnl =? 0) then pop_mode
    else str.

  (** [dispatch_mode_str_expr] *)
  Definition expr_end_type : prog TokenType :=
    s <- get ;;
    match peek s with
    | Some c =>
      if is_c "b" "B" c then advance_ ;; ret T_BitTestingLiteralExprEnd
      else if is_c "d" "D" c then
        (if is_c "t" "T" (peek_next s) then advance_ ;; advance_ ;; ret T_DateTimeLiteralExprEnd
         else advance_ ;; ret T_DateLiteralExprEnd)
      else if is_c "n" "N" c then advance_ ;; ret T_NameLiteralExprEnd
      else if is_c "t" "T" c then advance_ ;; ret T_TimeLiteralExprEnd
      else if is_c "x" "X" c then advance_ ;; ret T_HexStringLiteralExprEnd
      else ret T_StringExprEnd
    | None => ret T_StringExprEnd
    end.

  Definition dispatch_mode_str_expr (c : char) (allow_stat : bool) : prog unit :=
    assert_dbg (fun s => mode_is s (fun m => mode_eqb m (MStringExpr allow_stat))) 314 ;;
    start_token ;;
    s <- get ;;
    if c =? c_dquote then
      if peek_next s =? c_dquote then lex_str_expr_text F
      else if last_is_start s then lex_double_quoted_literal PNone
      else
        advance_ ;;
        t <- expr_end_type ;;
        emit t ;; pop_mode
    else if c =? c_amp then
      b <- lex_macro_var_expr F ;;
      when (negb b) (lex_str_expr_text F)
    else if c =? c_pct then
      if is_valid_unicode_sas_name_start (peek_next s) then
        if allow_stat then lex_macro_identifier msep false
        else
          do (OPrepError E_OpenCodeRecursionError) ;;
          lex_macro_identifier msep false ;;
          s' <- get ;;
          if match last_tok_type s' with Some t => is_macro_stat_tok_type t | None => false end
          then do OEmitPreparedError else ret tt
      else advance_ ;; lex_str_expr_text F
    else lex_str_expr_text F.

  (** [dispatch_mode_default] *)
  Definition dispatch_mode_default (c : char) : prog unit :=
    assert_dbg (fun s => mode_is s (fun m => mode_eqb m MDefault)) 315 ;;
    start_token ;;
    s <- get ;;
    if is_whitespace c then lex_ws F
    else if c =? c_squote then lex_single_quoted_str F ;; set_pending_stat true
    else if c =? c_dquote then lex_string_expression_start true ;; set_pending_stat true
    else if c =? c_semi then advance_ ;; emit T_SEMI ;; set_pending_stat false
    else if c =? c_slash then
      (if peek_next s =? c_star then lex_cstyle_comment F
       else advance_ ;; emit T_FSLASH ;; set_pending_stat true)
    else if c =? c_amp then
      b <- lex_macro_var_expr F ;;
      when (negb b) (eat_while F (fun x => x =? c_amp) ;; emit T_AMP) ;;
      set_pending_stat true
    else if c =? c_pct then
      let nx := peek_next s in
      if nx =? c_star then lex_macro_comment F
      else if is_valid_unicode_sas_name_start nx then lex_macro_identifier msep true
      else advance_ ;; emit T_PERCENT ;; set_pending_stat true
    else if is_ascii_digit c then lex_numeric_literal false ;; set_pending_stat true
    else if is_valid_unicode_sas_name_start c then
      lex_identifier F ;;
      s' <- get ;;
      let complete := match last_tok_type s' with Some t => tt_eqb t T_SEMI | None => false end in
      set_pending_stat (negb complete)
    else
      lex_symbols F c ;;
      s' <- get ;;
      when (match last_tok_type s' with Some t => negb (tt_eqb t T_PredictedCommentStat) | None => false end)
           (set_pending_stat true).

  (** [is_macro_do_while_or_until] *)
  Definition is_macro_do_while_or_until (s : st) : bool :=
    if negb (is_valid_unicode_sas_name_start (peek_next s)) then false
    else match lex_macro_call_stat_or_label (tl (rest s)) with
         | inl (t, _) => tt_eqb t T_KwmWhile || tt_eqb t T_KwmUntil
         | inr _ => false
         end.

  (** [dispatch_macro_do] *)
  Definition dispatch_macro_do (c : char) : prog unit :=
    assert_dbg (fun s => match last_default_type s with Some t => tt_eqb t T_KwmDo | None => false end) 316 ;;
    pop_mode ;;
    s <- get ;;
    if c =? c_semi then start_token ;; advance_ ;; emit T_SEMI ;; push_mode WSM
    else if (c =? c_pct) && is_macro_do_while_or_until s then start_token ;; lex_macro_identifier msep false
    else push_modes (PRE_do_var false (Some E_UnexpectedSemiInDoLoop)).

  (** [dispatch_macro_local_global] *)
  Definition dispatch_macro_local_global (c : char) (is_local : bool) : prog unit :=
    assert_dbg (fun s => match last_default_type s with
                         | Some t => tt_eqb t T_KwmLocal || tt_eqb t T_KwmGlobal | None => false end) 317 ;;
    pop_mode ;;
    if c =? c_slash then
      start_token ;; advance_ ;; emit T_FSLASH ;;
      push_modes (PRE_let E_InvalidMacroLocalGlobalReadonlyVarName) ;;
      push_modes [MMacroNameExpr false (Some (if is_local then E_MissingMacroLocalReadonlyKw else E_MissingMacroGlobalReadonlyKw)); WSM]
    else push_modes [MExpectSemiOrEOF; MMacroStatOptionsTextExpr].

  (** [lex_expected_token] *)
  Definition lex_expected_token (next : option char) (ty : TokenType) (chn : TokenChannel) : prog unit :=
    assert_dbg (fun s => mode_is s (fun m => mode_eqb m (MExpectSymbol ty chn)) || match peek s with None => true | _ => false end) 318 ;;
    assert_dbg (fun _ => tt_in ty [T_RPAREN; T_ASSIGN; T_LPAREN; T_COMMA; T_FSLASH]) 319 ;;
    let row := if tt_eqb ty T_RPAREN then Some (c_rparen, E_MissingExpectedRParen)
               else if tt_eqb ty T_ASSIGN then Some (c_eq, E_MissingExpectedAssign)
               else if tt_eqb ty T_LPAREN then Some (c_lparen, E_MissingExpectedLParen)
               else if tt_eqb ty T_COMMA then Some (c_comma, E_MissingExpectedComma)
               else if tt_eqb ty T_FSLASH then Some (c_slash, E_MissingExpectedFSlash)
               else None in
    match row with
    | None => emit_error E_InternalErrorUnexpectedTokenType ;; pop_mode
    | Some (expected, ek) =>
      (if match next with Some c => negb (c =? expected) | None => true end
       then emit_error ek else advance_) ;;
      emit_token chn ty PNone ;;
      pop_mode
    end.

  (** [lex_token] *)
  Definition lex_token (c : char) : prog unit :=
    m <- do OMode ;;
    match m with
    | MWsOrCStyleCommentOnly =>
      s <- get ;;
      if (c =? c_slash) && (peek_next s =? c_star) then start_token ;; lex_cstyle_comment F
      else if is_whitespace c then start_token ;; lex_ws F
      else pop_mode
    | MMakeCheckpoint => pop_mode ;; checkpoint
    | MDefault => dispatch_mode_default c
    | MExpectSymbol ty chn => start_token ;; lex_expected_token (Some c) ty chn
    | MExpectSemiOrEOF =>
      start_token ;;
      (if c =? c_semi then advance_ else emit_error E_MissingExpectedSemiOrEOF) ;;
      emit T_SEMI ;; pop_mode
    | MStringExpr a => dispatch_mode_str_expr c a
    | MMacroEval f p => dispatch_mode_macro_eval F msep c f p
    | MMacroStrQuotedExpr mk p => dispatch_macro_str_quoted_expr c mk p
    | MMaybeMacroCallArgsOrLabel l => lex_maybe_macro_call_args_or_label c l
    | MMaybeMacroCallArgAssign f => lex_maybe_macro_call_arg_assign c f
    | MMaybeTailMacroArgValue => lex_maybe_tail_macro_call_arg_value c
    | MMacroCallArgOrValue f => dispatch_macro_call_arg_or_value c f
    | MMacroCallValue f p => dispatch_macro_call_arg_value c f p
    | MMaybeMacroDefArgs => lex_maybe_macro_def_args c
    | MMacroDefArg => dispatch_macro_def_arg c
    | MMacroDefNextArgOrDefaultValue => lex_macro_def_next_arg_or_default_value c
    | MMacroDo => dispatch_macro_do c
    | MMacroLocalGlobal l => dispatch_macro_local_global c l
    | MMacroNameExpr found err => dispatch_macro_name_expr F msep c (negb found) err
    | MMacroSemiTerminatedTextExpr => dispatch_macro_semi_term_text_expr F msep c
    | MMacroStatOptionsTextExpr => dispatch_macro_stat_opts_text_expr F msep c
    | MMacroDefName =>
      start_token ;; _ <- lex_macro_def_identifier F c false ;; pop_mode
    end.

  (** [finalize_lexing] *)
  Fixpoint emit_rparens (k : nat) : prog unit :=
    match k with O => ret tt | S k' => emit T_RPAREN ;; emit_rparens k' end.

  Fixpoint finalize_loop (f : nat) : prog unit :=
    match f with
    | O => fuel_out tt
    | S f' =>
      s <- get ;;
      match s_modes s with
      | [] => ret tt
      | m :: _ =>
        pop_mode ;;
        start_token ;;
        (match m with
         | MExpectSymbol ty chn => push_mode (MExpectSymbol ty chn) ;; lex_expected_token None ty chn
         | MExpectSemiOrEOF | MMacroDo => start_token ;; emit T_SEMI
         | MMacroStrQuotedExpr _ pnl | MMacroCallValue _ pnl | MMacroEval _ pnl =>
           when (0 <? pnl) (emit_error E_MissingExpectedRParen ;; emit_rparens (N.to_nat pnl))
         | MStringExpr _ => handle_unterminated_str_expr PNone
         | MMacroNameExpr _ err => match err with Some e => emit_error e | None => ret tt end
         | MMacroDefName => emit_error E_InvalidMacroDefName
         | _ => ret tt
         end) ;;
        finalize_loop f'
      end
    end.

  Definition finalize_lexing (stack_fuel : nat) : prog unit :=
    finalize_loop stack_fuel ;; do OFinalEOF.

  (** [lex]: the main loop with the iteration budget hook and the debug loop detector *)
  Variable limit : N.        (* iteration budget of the verification hook: 8 * source_len + 64 *)

  Fixpoint main_loop (f : nat) (last : N * list mode) : prog bool :=    (* true = left through the loop detector *)
    match f with
    | O => fuel_out false
    | S f' =>
      s <- get ;;
      match peek s with
      | None => ret false
      | Some c =>
        over <- do (OTick limit) ;;
        if over then ret false
        else
          lex_token c ;;
          '(det, last') <- do (OLoopDetect last) ;;
          if det then ret true else main_loop f' last'
      end
    end.
End Handlers3.

Record lex_result : Set := mkLexResult {
  lr_outcome : option N;          (* [Some site] = panic *)
  lr_state : st;                  (* final lexer state (offsets relative to the text start) *)
  lr_end : st;                    (* state when the input was exhausted (before finalization) *)
  lr_buffer : tbuf;
  lr_errors : list err_info
}.

(** the run on the text after the mark; [n_abs] = byte length of the whole source (the initial
    value of the loop detector's remembered length) *)
Definition lex_text (cfg : config) (bb bc : N) (text : list char) : lex_result :=
  let n := List.length text in
  let s0 := init text in
  let F := S n in
  let budget := (8 * (4 * n) + 64 + 2 + 24)%nat in
  let out s := into_detached bb bc s in
  let errs s := map (shift_err bb bc) (rev (s_errs s)) in
  match run (dbg cfg) (main_loop F (msep cfg) (8 * (blen text + bb) + 64) budget (blen text + bb, [MDefault])) s0 with
  | Panic site s => mkLexResult (Some site) s s (out s) (errs s)
  | Done det s1 =>
    if det then mkLexResult None s1 s1 (out s1) (errs s1)
    else
      match run (dbg cfg) (finalize_lexing (S (S (N.to_nat (s_nmodes s1))))) s1 with
      | Panic site s => mkLexResult (Some site) s s1 (out s) (errs s)
      | Done _ s2 => mkLexResult None s2 s1 (out s2) (errs s2)
      end
  end.

Definition lex (cfg : config) (src : list char) : lex_result :=
  let '((bb, bc), text) := split_bom src in lex_text cfg bb bc text.
