(** * The detached [TokenizedBuffer]: per-token accessors and the bulk resolved view.
    One definition per Rust function of buffer.rs (impl TokenizedBuffer), same order of tests.
    Results: [AOk v] = [Ok(v)], [AErr k] = [Err(k)], [APanic] = a panic (debug assertion,
    overflow check in the dev profile, or slice index out of bounds in any profile). *)
From Coq Require Import NArith List Bool.
From SasLexer Require Import Gen.TokenType Gen.ErrorKind Gen.Channel Model.Base.
Import ListNotations.
Open Scope N_scope.

Inductive ares (A : Type) : Type :=
| AOk (v : A)
| AErr (k : ErrorKind)
| APanic.
Arguments AOk {A} v.
Arguments AErr {A} k.
Arguments APanic {A}.

Definition abind {A B} (r : ares A) (f : A -> ares B) : ares B :=
  match r with AOk v => f v | AErr k => AErr k | APanic => APanic end.

(** [a - b] on [u32]: overflow check in the dev profile, wrap-around otherwise *)
Definition sub32 (d : bool) (a b : N) : ares N :=
  if b <=? a then AOk (a - b) else if d then APanic else AOk (a + two32 - b).

Section Accessors.
  Variable d : bool.       (* debug assertions / overflow checks *)
  Variable b : tbuf.

  Definition n_toks : N := len (b_toks b).

  (** the leading [debug_assert!(tidx < self.token_infos.len())] of every accessor *)
  Definition idx_assert {A} (i : N) (k : ares A) : ares A :=
    if d && negb (i <? n_toks) then APanic else k.

  Definition get_tok {A} (i : N) (f : tok -> ares A) : ares A :=
    match nthN (b_toks b) i with Some t => f t | None => AErr E_TokenIdxOutOfBounds end.

  Definition get_token_start_byte_offset (i : N) : ares N :=
    idx_assert i (get_tok i (fun t => AOk (t_byte t))).

  Definition get_token_start (i : N) : ares N :=
    idx_assert i (get_tok i (fun t => AOk (t_start t))).

  Definition get_token_end_byte_offset (i : N) : ares N :=
    idx_assert i
      (if i + 1 <? n_toks then get_tok (i + 1) (fun t => AOk (t_byte t))
       else get_tok i (fun t => AOk (t_byte t))).

  Definition get_token_end (i : N) : ares N :=
    idx_assert i
      (if i + 1 <? n_toks then get_tok (i + 1) (fun t => AOk (t_start t))
       else get_tok i (fun t => AOk (t_start t))).

  Definition get_token_start_line (i : N) : ares N :=
    idx_assert i (get_tok i (fun t => AOk (t_line t + 1))).

  (** [Result] equality of the two nested accessor calls in [get_token_end_line] *)
  Definition ares_eqb (x y : ares N) : bool :=
    match x, y with
    | AOk a, AOk c => a =? c
    | AErr a, AErr c => ek_eqb a c
    | _, _ => false
    end.

  Definition get_token_end_line (i : N) : ares N :=
    idx_assert i
      (if n_toks =? 0 then
         (* [len() - 1] underflows: panic with overflow checks, otherwise no index matches *)
         if d then APanic else AErr E_TokenIdxOutOfBounds
       else if i =? n_toks - 1 then get_token_start_line i
       else
         match nthN (b_toks b) (i + 1) with
         | None => AErr E_TokenIdxOutOfBounds
         | Some nt =>
           match nthN (b_lines b) (t_line nt) with
           | None => AErr E_TokenIdxOutOfBounds
           | Some li =>
             let s := get_token_start_byte_offset i in
             let e := get_token_end_byte_offset i in
             match s, e with
             | APanic, _ | _, APanic => APanic
             | _, _ =>
               AOk (t_line nt + (if (l_byte li <? t_byte nt) || ares_eqb s e then 1 else 0))
             end
           end
         end).

  Definition get_token_start_column (i : N) : ares N :=
    idx_assert i
      (get_tok i (fun t =>
         match nthN (b_lines b) (t_line t) with
         | None => AErr E_TokenIdxOutOfBounds
         | Some li => sub32 d (t_start t) (l_start li)
         end)).

  Definition get_token_end_column (i : N) : ares N :=
    idx_assert i
      (abind (get_token_end i) (fun te =>
       abind (get_token_end_line i) (fun el =>
       abind (sub32 d el 1) (fun li_idx =>
         match nthN (b_lines b) li_idx with
         | None => AErr E_TokenIdxOutOfBounds
         | Some li => sub32 d te (l_start li)
         end)))).

  Definition get_token_type (i : N) : ares TokenType :=
    idx_assert i (get_tok i (fun t => AOk (t_type t))).

  Definition get_token_channel (i : N) : ares TokenChannel :=
    idx_assert i (get_tok i (fun t => AOk (t_chan t))).

  Definition get_token_payload (i : N) : ares payload :=
    idx_assert i (get_tok i (fun t => AOk (t_payload t))).

  (** One row of [ResolvedTokenInfo] assembled from the accessors *)
  Record row : Set := mkRow {
    r_chan : TokenChannel; r_type : TokenType; r_index : N;
    r_start : N; r_stop : N; r_line : N; r_column : N;
    r_end_line : N; r_end_column : N; r_payload : payload
  }.

  Definition row_of_accessors (i : N) : ares row :=
    abind (get_token_channel i) (fun ch =>
    abind (get_token_type i) (fun ty =>
    abind (get_token_start i) (fun st =>
    abind (get_token_end i) (fun en =>
    abind (get_token_start_line i) (fun sl =>
    abind (get_token_start_column i) (fun sc =>
    abind (get_token_end_line i) (fun el =>
    abind (get_token_end_column i) (fun ec =>
    abind (get_token_payload i) (fun p =>
      AOk (mkRow ch ty i st en sl sc el ec p)))))))))).

  (** [into_resolved_token_vec]: [None] = panic.  Slice indexing panics in every profile;
      the [u32] subtractions panic only with overflow checks. *)
  Definition index_line (i : N) : option line_info := nthN (b_lines b) i.

  Definition osub (x y : N) : option N :=
    match sub32 d x y with AOk v => Some v | _ => None end.

  Fixpoint bulk_loop (idx : N) (cur : tok) (rest : list tok) : option (list row) :=
    match rest with
    | [] =>
      (* the EOF token: cur *)
      match index_line (t_line cur) with
      | None => None
      | Some li =>
        match osub (t_start cur) (l_start li) with
        | None => None
        | Some col =>
          Some [mkRow (t_chan cur) (t_type cur) idx (t_start cur) (t_start cur)
                      (t_line cur + 1) col (t_line cur + 1) col (t_payload cur)]
        end
      end
    | nt :: rest' =>
      match index_line (t_line nt) with
      | None => None
      | Some nli =>
        match osub (t_line nt)
                   (if (t_byte nt =? l_byte nli) && (t_byte cur <? t_byte nt) then 1 else 0) with
        | None => None
        | Some eidx =>
          match index_line (t_line cur), index_line eidx with
          | Some cli, Some eli =>
            match osub (t_start cur) (l_start cli), osub (t_start nt) (l_start eli) with
            | Some col, Some ecol =>
              match bulk_loop (idx + 1) nt rest' with
              | None => None
              | Some rows =>
                Some (mkRow (t_chan cur) (t_type cur) idx (t_start cur) (t_start nt)
                            (t_line cur + 1) col (eidx + 1) ecol (t_payload cur) :: rows)
              end
            | _, _ => None
            end
          | _, _ => None
          end
        end
      end
    end.

  Definition into_resolved_token_vec : option (list row) :=
    match b_toks b with
    | [] => None
    | t0 :: rest => bulk_loop 0 t0 rest
    end.

End Accessors.
