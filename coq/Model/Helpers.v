(** * Pure helpers: sas_lang.rs, macro.rs, keyword lookup of token_type.rs.
    Character-level functions take the remaining input as a [list char]. *)
From Coq Require Import NArith List Bool String Ascii.
From SasLexer Require Import Gen.TokenType Gen.ErrorKind Gen.Channel Gen.Unicode Model.Base.
Import ListNotations.
Open Scope N_scope.

Fixpoint in_ranges (l : list (N * N)) (c : N) : bool :=
  match l with
  | [] => false
  | (a, b) :: r => if c <? a then false else if c <=? b then true else in_ranges r c
  end.

Definition is_whitespace (c : char) : bool := in_ranges WS_RANGES c.
Definition is_xid_start (c : char) : bool := in_ranges XID_START_RANGES c.
Definition is_xid_continue (c : char) : bool := in_ranges XID_CONTINUE_RANGES c.

Definition ch (s : string) : char :=
  match s with String a _ => N_of_ascii a | EmptyString => 0 end.

Definition is_ascii (c : char) : bool := c <? 128.
Definition is_ascii_digit (c : char) : bool := (48 <=? c) && (c <=? 57).
Definition is_ascii_lower (c : char) : bool := (97 <=? c) && (c <=? 122).
Definition is_ascii_upper (c : char) : bool := (65 <=? c) && (c <=? 90).
Definition to_ascii_uppercase (c : char) : char := if is_ascii_lower c then c - 32 else c.
Definition is_ascii_hexdigit (c : char) : bool :=
  is_ascii_digit c || ((97 <=? c) && (c <=? 102)) || ((65 <=? c) && (c <=? 70)).

(** sas_lang.rs *)
Definition is_valid_unicode_sas_name_start (c : char) : bool := is_xid_start c || (c =? 95).
Definition is_valid_sas_name_start (c : char) : bool := is_ascii_lower c || is_ascii_upper c || (c =? 95).
Definition is_valid_sas_name_continue (c : char) : bool :=
  is_ascii_lower c || is_ascii_upper c || is_ascii_digit c || (c =? 95).

Definition c_amp : char := 38.      (* & *)
Definition c_pct : char := 37.      (* % *)
Definition c_star : char := 42.
Definition c_squote : char := 39.
Definition c_dquote : char := 34.
Definition c_semi : char := 59.
Definition c_slash : char := 47.
Definition c_lparen : char := 40.
Definition c_rparen : char := 41.
Definition c_comma : char := 44.
Definition c_eq : char := 61.
Definition c_dot : char := 46.
Definition c_space : char := 32.

(** the characters an identifier scan consumes: the closure shared by [lex_identifier],
    [lex_macro_call_stat_or_label] and [is_macro_stat] (ASCII: name-continue; otherwise
    XID_Continue, which clears the all-ASCII flag) *)
Definition ident_char (c : char) : bool :=
  if is_ascii c then is_valid_sas_name_continue c else is_xid_continue c.

Fixpoint take_while (p : char -> bool) (l : list char) : list char :=
  match l with
  | c :: r => if p c then c :: take_while p r else []
  | [] => []
  end.

Fixpoint count_while (p : char -> bool) (l : list char) : N :=
  match l with
  | c :: r => if p c then 1 + count_while p r else 0
  | [] => 0
  end.

Fixpoint drop_while (p : char -> bool) (l : list char) : list char :=
  match l with
  | c :: r => if p c then drop_while p r else l
  | [] => []
  end.

(** macro.rs: [is_macro_amp] *)
Definition is_macro_amp (l : list char) : bool * N :=
  let n := count_while (fun c => c =? c_amp) l in
  match drop_while (fun c => c =? c_amp) l with
  | c :: _ => (is_valid_unicode_sas_name_start c, n)
  | [] => (false, n)
  end.

(** [get_macro_resolve_ops_from_amps]: set bit positions of the low 32 bits, highest first *)
Definition get_macro_resolve_ops_from_amps (amp_count : N) : list N :=
  filter (fun i => N.testbit amp_count i) (map N.of_nat (rev (seq 0 32))).

Definition is_macro_eval_quotable_op (c : char) : bool := (c =? 126) || (c =? 94) || (c =? 61).

Definition is_macro_percent (follow : char) (in_eval : bool) : bool :=
  (follow =? c_star) || is_valid_unicode_sas_name_start follow || (in_eval && is_macro_eval_quotable_op follow).

Definition in_range (r : N * N) (t : TokenType) : bool :=
  (fst r <=? tt_to_N t) && (tt_to_N t <=? snd r).

Definition is_macro_stat_tok_type (t : TokenType) : bool := in_range MACRO_STAT_RANGE t.
Definition is_macro_quote_call_tok_type (t : TokenType) : bool := in_range MACRO_QUOTE_CALL_RANGE t.

Definition tt_in (t : TokenType) (l : list TokenType) : bool := existsb (tt_eqb t) l.

Definition is_macro_eval_logical_op (t : TokenType) : bool :=
  tt_in t [T_LT; T_KwLT; T_LE; T_KwLE; T_ASSIGN; T_KwEQ; T_HASH; T_KwIN; T_NE; T_KwNE; T_GT; T_KwGT; T_GE; T_KwGE].

Definition needs_macro_sep (prev : option TokenType) (t : TokenType) : bool :=
  negb (match prev with
        | None => true
        | Some p => tt_in p [T_SEMI; T_MacroLabel; T_KwmThen; T_KwmElse]
        end)
  && tt_in t [T_MacroLabel; T_KwmAbort; T_KwmCopy; T_KwmDisplay; T_KwmGlobal; T_KwmGoto; T_KwmInput;
              T_KwmLocal; T_KwmPut; T_KwmReturn; T_KwmSymdel; T_KwmSyscall; T_KwmSysexec; T_KwmSyslput;
              T_KwmSysmacdelete; T_KwmSysmstoreclear; T_KwmSysrput; T_KwmWindow; T_KwmMacro; T_KwmMend;
              T_KwmLet; T_KwmIf; T_KwmElse; T_KwmDo; T_KwmEnd].

(** keyword maps: keys as character lists *)
Fixpoint string_chars (s : string) : list char :=
  match s with
  | EmptyString => []
  | String a r => N_of_ascii a :: string_chars r
  end.

Fixpoint chars_eqb (a b : list char) : bool :=
  match a, b with
  | [], [] => true
  | x :: r, y :: q => (x =? y) && chars_eqb r q
  | _, _ => false
  end.

Definition KEYWORDS_C : list (list char * TokenType) := map (fun p => (string_chars (fst p), snd p)) KEYWORDS.
Definition MKEYWORDS_C : list (list char * TokenType) := map (fun p => (string_chars (fst p), snd p)) MKEYWORDS.

Fixpoint lookup (m : list (list char * TokenType)) (k : list char) : option TokenType :=
  match m with
  | [] => None
  | (k', t) :: r => if chars_eqb k k' then Some t else lookup r k
  end.

Definition parse_keyword (ident : list char) : option TokenType := lookup KEYWORDS_C ident.
Definition parse_macro_keyword (ident : list char) : option TokenType := lookup MKEYWORDS_C ident.

Definition upper (l : list char) : list char := map to_ascii_uppercase l.

(** [lex_macro_call_stat_or_label] on the text after the [%]: token type and number of
    characters of the identifier.  [inr] = the internal error it can return. *)
Definition lex_macro_call_stat_or_label (l : list char) : (TokenType * N) + ErrorKind :=
  let ident := take_while ident_char l in
  let n := len ident in
  let is_asc := forallb is_ascii ident in
  if negb is_asc || (MAX_MKEYWORDS_LEN <? blen ident) then inl (T_MacroIdentifier, n)
  else
    match parse_macro_keyword (upper ident) with
    | None => inl (T_MacroIdentifier, n)
    | Some t =>
      (* TokenTypeMacroCallOrStat::try_from *)
      if (tt_to_N SUBSET_START <=? tt_to_N t) && (tt_to_N t <=? tt_to_N SUBSET_END) then inl (t, n)
      else inr E_InternalErrorOutOfBounds
    end.

(** [is_macro_stat]: input starts with [%] *)
Definition is_macro_stat (l : list char) : bool :=
  match l with
  | _ :: r =>
    let ident := take_while ident_char r in
    let is_asc := forallb is_ascii ident in
    if negb is_asc || (MAX_MKEYWORDS_LEN <? blen ident) then false
    else match parse_macro_keyword (upper ident) with
         | Some t => is_macro_stat_tok_type t
         | None => false
         end
  | [] => false
  end.

(** [is_macro_eval_mnemonic] *)
Definition lc (c : char) : char := if is_ascii_upper c then c + 32 else c.

Definition is_macro_eval_mnemonic (l : list char) : option TokenType * N :=
  match l with
  | [] => (None, 0)
  | [_] => (None, 0)
  | s :: n :: r =>
    let c2 := match r with x :: _ => x | [] => c_space end in
    let non_id := negb (is_xid_continue c2) in
    let s' := lc s in let n' := lc n in
    let two (t : TokenType) := if non_id then (Some t, 1) else (None, 0) in
    let three (last : char) (t : TokenType) :=
        if negb non_id && (lc c2 =? last) then
          let c3 := match r with _ :: y :: _ => y | _ => c_space end in
          if is_xid_continue c3 then (None, 0) else (Some t, 2)
        else (None, 0) in
    (* only ASCII letters can match: [lc] of a non-letter never equals a letter pattern,
       but a non-ASCII character must not be folded: guard on ASCII letters *)
    let letter c := is_ascii_lower c || is_ascii_upper c in
    if negb (letter s && letter n) then (None, 0)
    else if (s' =? ch "e") && (n' =? ch "q") then two T_KwEQ
    else if (s' =? ch "i") && (n' =? ch "n") then two T_KwIN
    else if (s' =? ch "o") && (n' =? ch "r") then two T_KwOR
    else if (s' =? ch "l") && (n' =? ch "t") then two T_KwLT
    else if (s' =? ch "l") && (n' =? ch "e") then two T_KwLE
    else if (s' =? ch "g") && (n' =? ch "t") then two T_KwGT
    else if (s' =? ch "g") && (n' =? ch "e") then two T_KwGE
    else if (s' =? ch "a") && (n' =? ch "n") then
      (if letter c2 then three (ch "d") T_KwAND else (None, 0))
    else if (s' =? ch "n") && (n' =? ch "e") then two T_KwNE
    else if (s' =? ch "n") && (n' =? ch "o") then
      (if letter c2 then three (ch "t") T_KwNOT else (None, 0))
    else (None, 0)
  end.
