(** * Base data of the model: characters, UTF-8 lengths, payloads, tokens, buffers.
    Rust [char] is a Unicode scalar value, modelled as [N]; [u32]/[usize]/[u64] values are
    unbounded [N], with the Rust arithmetic that can overflow modelled by explicit operations
    ([sub32] below).  Mirrors crates/sas-lexer/src/lexer/{text.rs,buffer.rs}. *)
From Coq Require Import NArith List Bool String.
From SasLexer Require Import Gen.TokenType Gen.ErrorKind Gen.Channel.
Import ListNotations.
Open Scope N_scope.

Definition char := N.

Definition utf8_len (c : char) : N :=
  if c <? 128 then 1 else if c <? 2048 then 2 else if c <? 65536 then 3 else 4.

Fixpoint blen (l : list char) : N :=
  match l with [] => 0 | c :: r => utf8_len c + blen r end.

Definition len {A} (l : list A) : N := N.of_nat (List.length l).

(** [Payload] of buffer.rs. Floats are IEEE-754 binary64 bit patterns. *)
Inductive payload : Set :=
| PNone
| PInt (v : N)
| PFloat (bits : N)
| PStr (a b : N).

Definition payload_eqb (p q : payload) : bool :=
  match p, q with
  | PNone, PNone => true
  | PInt a, PInt b => a =? b
  | PFloat a, PFloat b => a =? b
  | PStr a b, PStr c d => (a =? c) && (b =? d)
  | _, _ => false
  end.

(** [TokenInfo] *)
Record tok : Set := mkTok {
  t_chan : TokenChannel;
  t_type : TokenType;
  t_byte : N;      (* byte_offset *)
  t_start : N;     (* char offset *)
  t_line : N;      (* LineIdx, zero based *)
  t_payload : payload
}.

(** [LineInfo] *)
Record line_info : Set := mkLine { l_byte : N; l_start : N }.

(** [ErrorInfo] *)
Record err_info : Set := mkErr {
  e_kind : ErrorKind;
  e_byte : N;
  e_char : N;
  e_line : N;
  e_col : N;
  e_last : option N
}.

(** [TokenizedBuffer]: vectors in source order; the literal buffer is a UTF-8 byte string. *)
Record tbuf : Set := mkTbuf {
  b_lines : list line_info;
  b_toks : list tok;
  b_lit : list N
}.

(** Indexing with an [N] index ([Vec::get]). *)
Fixpoint nthN {A} (l : list A) (n : N) : option A :=
  match l with
  | [] => None
  | x :: r => if n =? 0 then Some x else nthN r (N.pred n)
  end.

(** Build configuration: [dbg] = debug assertions and overflow checks on (the dev profile),
    [msep] = the [macro_sep] cargo feature. *)
Record config : Set := mkCfg { dbg : bool; msep : bool }.

Definition two32 : N := 4294967296.

(** UTF-8 encoding of one scalar value (for the string literal buffer). *)
Definition utf8_encode (c : char) : list N :=
  if c <? 128 then [c]
  else if c <? 2048 then [192 + c / 64; 128 + c mod 64]
  else if c <? 65536 then [224 + c / 4096; 128 + (c / 64) mod 64; 128 + c mod 64]
  else [240 + c / 262144; 128 + (c / 4096) mod 64; 128 + (c / 64) mod 64; 128 + c mod 64].

Definition utf8_encode_all (l : list char) : list N := flat_map utf8_encode l.
