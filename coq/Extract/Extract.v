(** Extraction of the executable model to OCaml (ExtrOcamlBasic only: [N], [positive],
    [nat], [string], [ascii] stay the extracted Coq datatypes; no [Extract Constant]). *)
From Coq Require Import Extraction ExtrOcamlBasic NArith List String.
From SasLexer Require Import Gen.TokenType Gen.ErrorKind Gen.Channel Model.Base Model.Buffer Model.Core Model.Helpers Model.Numeric Model.Lexer1 Model.Lexer2 Model.Lexer3 Spec.RefLex Spec.Glue Spec.Wire Proofs.WfCheck.
Extraction Language OCaml.
Extraction "model.ml"
  tt_to_N tt_of_N tt_name ek_code ek_of_code ek_name ch_to_N ch_name
  mkTbuf mkTok mkLine
  wfbuf_b n_toks row_of_accessors into_resolved_token_vec
  get_token_channel get_token_type get_token_start_byte_offset get_token_end_byte_offset
  get_token_start get_token_end get_token_start_line get_token_start_column
  get_token_end_line get_token_end_column get_token_payload
  lex mkCfg is_macro_amp get_macro_resolve_ops_from_amps is_macro_eval_mnemonic is_macro_stat
  lex_macro_call_stat_or_label parse_keyword parse_macro_keyword needs_macro_sep
  try_parse_decimal try_parse_hex_integer parse_sas_hex_string utf8_encode_all reflex macro_free compose_check decode encode py_decode.
