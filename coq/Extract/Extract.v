(** Extraction of the executable model to OCaml (ExtrOcamlBasic only: [N], [positive],
    [nat], [string], [ascii] stay the extracted Coq datatypes; no [Extract Constant]). *)
From Coq Require Import Extraction ExtrOcamlBasic NArith List String.
From SasLexer Require Import Gen.TokenType Gen.ErrorKind Gen.Channel Model.Base Model.Buffer Proofs.WfCheck.
Extraction Language OCaml.
Extraction "model.ml"
  tt_to_N tt_of_N tt_name ek_code ek_of_code ek_name ch_to_N
  mkTbuf mkTok mkLine
  wfbuf_b n_toks row_of_accessors into_resolved_token_vec
  get_token_channel get_token_type get_token_start_byte_offset get_token_end_byte_offset
  get_token_start get_token_end get_token_start_line get_token_start_column
  get_token_end_line get_token_end_column get_token_payload.
