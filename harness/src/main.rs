//! implrun: runs the real sas-lexer crate (built from /repo's working tree with
//! `--cfg sas_lexer_verif`) on inputs given as hex lines and prints the canonical dump that
//! the Coq model's driver prints too. See DESIGN.md §4.2.
use sas_lexer::error::ErrorKind;
use sas_lexer::{verif_hooks as vh, Payload, TokenChannel, TokenIdx, TokenType, TokenizedBuffer};
use std::fmt::Write as _;
use std::io::{BufRead, Write};
use std::panic;
use strum::IntoEnumIterator;

fn unhex(s: &str) -> Vec<u8> {
    let b = s.trim().as_bytes();
    (0..b.len() / 2)
        .map(|i| u8::from_str_radix(std::str::from_utf8(&b[2 * i..2 * i + 2]).unwrap(), 16).unwrap())
        .collect()
}

fn hex(b: &[u8]) -> String {
    let mut s = String::with_capacity(b.len() * 2);
    for x in b {
        write!(s, "{x:02x}").unwrap();
    }
    s
}

fn pl(p: Payload) -> String {
    match p {
        Payload::None => "N".into(),
        Payload::Integer(i) => format!("I{i}"),
        Payload::Float(f) => format!("F{:016x}", f.to_bits()),
        Payload::StringLiteral(a, b) => format!("S{a},{b}"),
    }
}

fn acc<T: std::fmt::Display>(r: Result<T, ErrorKind>) -> String {
    match r {
        Ok(v) => format!("{v}"),
        Err(e) => format!("!{}", e as u16),
    }
}

/// Dump of a detached buffer: tokens, lines, literal buffer, bulk view, accessor rows.
fn dump_buffer(out: &mut String, buffer: &TokenizedBuffer, src: Option<&str>, with_acc: bool) {
    for (i, (ch, ty, b, c, l, p)) in buffer.verif_token_infos().iter().enumerate() {
        writeln!(out, "T {i} {} {} {b} {c} {l} {}", *ty as u16, *ch as u8, pl(*p)).unwrap();
    }
    for (b, c) in buffer.verif_line_infos() {
        writeln!(out, "L {b} {c}").unwrap();
    }
    writeln!(out, "LIT {}", hex(buffer.string_literals_buffer().as_bytes())).unwrap();
    if !with_acc {
        return;
    }
    // bulk view (may panic on ill-formed hand-built buffers: caught by the caller)
    let rows = panic::catch_unwind(panic::AssertUnwindSafe(|| buffer.into_resolved_token_vec()));
    match rows {
        Ok(rows) => {
            for r in rows {
                writeln!(
                    out,
                    "R {} {} {} {} {} {} {} {} {} {}",
                    r.token_index,
                    r.channel as u8,
                    r.token_type as u16,
                    r.start,
                    r.stop,
                    r.line,
                    r.column,
                    r.end_line,
                    r.end_column,
                    pl(r.payload)
                )
                .unwrap();
            }
        }
        Err(_) => writeln!(out, "R panic").unwrap(),
    }
    // accessor rows
    for (i, t) in buffer.iter_tokens().enumerate() {
        let row = panic::catch_unwind(panic::AssertUnwindSafe(|| {
            let mut s = String::new();
            write!(
                s,
                "A {i} {} {} {} {} {} {} {} {} {} {} {}",
                acc(buffer.get_token_channel(t).map(|c| c as u8)),
                acc(buffer.get_token_type(t).map(|c| c as u16)),
                acc(buffer.get_token_start_byte_offset(t).map(|o| o.get())),
                acc(buffer.get_token_end_byte_offset(t).map(|o| o.get())),
                acc(buffer.get_token_start(t).map(|o| o.get())),
                acc(buffer.get_token_end(t).map(|o| o.get())),
                acc(buffer.get_token_start_line(t)),
                acc(buffer.get_token_start_column(t)),
                acc(buffer.get_token_end_line(t)),
                acc(buffer.get_token_end_column(t)),
                acc(buffer.get_token_payload(t).map(pl)),
            )
            .unwrap();
            if let Some(src) = src {
                // raw text / resolved text: print status + hex
                match buffer.get_token_raw_text(t, &src) {
                    Ok(Some(x)) => write!(s, " {}", hex(x.as_bytes())).unwrap(),
                    Ok(None) => write!(s, " -").unwrap(),
                    Err(e) => write!(s, " !{}", e as u16).unwrap(),
                }
                match buffer.get_token_resolved_text(t, &src) {
                    Ok(Some(x)) => write!(s, " {}", hex(x.as_bytes())).unwrap(),
                    Ok(None) => write!(s, " -").unwrap(),
                    Err(e) => write!(s, " !{}", e as u16).unwrap(),
                }
            }
            s
        }));
        match row {
            Ok(s) => writeln!(out, "{s}").unwrap(),
            Err(_) => writeln!(out, "A {i} panic").unwrap(),
        }
    }
}

fn lex_case(src: &str, with_acc: bool, trace: bool) -> String {
    let mut out = String::new();
    let res = panic::catch_unwind(|| sas_lexer::lex_program_verif(&src, trace));
    match res {
        Err(e) => {
            let msg = if let Some(s) = e.downcast_ref::<String>() {
                s.clone()
            } else if let Some(s) = e.downcast_ref::<&str>() {
                (*s).to_string()
            } else {
                "?".into()
            };
            let loc = LAST_PANIC_LOC.with(|l| l.borrow().clone());
            writeln!(out, "OUT panic {} | {}", loc, msg.replace('\n', " ")).unwrap();
        }
        Ok(Err(e)) => {
            writeln!(out, "OUT err {}", e as u16).unwrap();
        }
        Ok(Ok(r)) => {
            let v = &r.verif;
            writeln!(
                out,
                "OUT {} iters={}",
                if v.aborted { "aborted" } else { "ok" },
                v.iters
            )
            .unwrap();
            let ps: String = v.end_pending_stat.iter().map(|&b| if b { '1' } else { '0' }).collect();
            writeln!(
                out,
                "END modes={} mnl={} ps={} cp={}",
                v.end_modes,
                v.end_macro_nesting_level,
                ps,
                u8::from(v.end_checkpoint_set)
            )
            .unwrap();
            if trace {
                for (rem, m) in &v.trace {
                    writeln!(out, "TR {rem} {m}").unwrap();
                }
            }
            dump_buffer(&mut out, &r.buffer, Some(src), with_acc);
            for e in &r.errors {
                writeln!(
                    out,
                    "E {} {} {} {} {} {}",
                    e.error_kind() as u16,
                    e.at_byte_offset(),
                    e.at_char_offset(),
                    e.on_line(),
                    e.at_column(),
                    e.last_token().map_or("-".to_string(), |t: TokenIdx| t.get().to_string())
                )
                .unwrap();
            }
        }
    }
    out
}

thread_local! {
    static LAST_PANIC_LOC: std::cell::RefCell<String> = const { std::cell::RefCell::new(String::new()) };
}

fn tok_by_u16(n: u16) -> Option<TokenType> {
    TokenType::iter().find(|t| *t as u16 == n)
}
fn chan_by_u8(n: u8) -> Option<TokenChannel> {
    TokenChannel::iter().find(|t| *t as u8 == n)
}

fn ranges(pred: impl Fn(char) -> bool) -> String {
    let mut out = String::new();
    let mut start: Option<u32> = None;
    for cp in 0..=0x11_0000u32 {
        let v = char::from_u32(cp).map_or(false, &pred);
        match (v, start) {
            (true, None) => start = Some(cp),
            (false, Some(s)) => {
                write!(out, "{s}-{} ", cp - 1).unwrap();
                start = None;
            }
            _ => {}
        }
    }
    out
}

fn parse_payload(s: &str) -> Payload {
    if s == "N" {
        Payload::None
    } else if let Some(r) = s.strip_prefix('I') {
        Payload::Integer(r.parse().unwrap())
    } else if let Some(r) = s.strip_prefix('F') {
        Payload::Float(f64::from_bits(u64::from_str_radix(r, 16).unwrap()))
    } else if let Some(r) = s.strip_prefix('S') {
        let (a, b) = r.split_once(',').unwrap();
        Payload::StringLiteral(a.parse().unwrap(), b.parse().unwrap())
    } else {
        panic!("bad payload {s}")
    }
}

fn num(r: Option<(TokenType, Payload, usize, Option<ErrorKind>)>) -> String {
    match r {
        None => "none".into(),
        Some((t, p, l, e)) => format!(
            "{} {} {} {}",
            t as u16,
            pl(p),
            l,
            e.map_or("-".to_string(), |e| (e as u16).to_string())
        ),
    }
}

fn main() {
    // silent panic hook that remembers the location
    panic::set_hook(Box::new(|info| {
        let loc = info
            .location()
            .map_or("?".to_string(), |l| format!("{}:{}", l.file().rsplit('/').next().unwrap_or(""), l.line()));
        LAST_PANIC_LOC.with(|l| *l.borrow_mut() = loc);
    }));

    let args: Vec<String> = std::env::args().collect();
    let mode = args.get(1).map_or("lex", String::as_str);
    let stdin = std::io::stdin();
    let stdout = std::io::stdout();
    let mut w = std::io::BufWriter::with_capacity(1 << 20, stdout.lock());
    match mode {
        // lex: hex input per line -> canonical dump. lexa: plus accessor/bulk rows. lext: plus trace
        "lex" | "lexa" | "lext" => {
            for (i, line) in stdin.lock().lines().enumerate() {
                let line = line.unwrap();
                let bytes = unhex(&line);
                let Ok(src) = String::from_utf8(bytes) else {
                    writeln!(w, "CASE {i} {}\nOUT notutf8", line.trim()).unwrap();
                    continue;
                };
                writeln!(w, "CASE {i} {}", line.trim()).unwrap();
                w.flush().unwrap();
                let d = lex_case(&src, mode != "lex", mode == "lext");
                w.write_all(d.as_bytes()).unwrap();
            }
        }
        // threads: lex all inputs sequentially, then concurrently on N threads in shuffled order,
        // report any case whose dump differs
        "threads" => {
            // the lexer's debug-only loop detector prints to stdout: worker threads must be able to take the
            // stdout lock, so this thread gives it up while they run (it used to keep it and a detector
            // firing in a worker blocked the run for good)
            w.flush().unwrap();
            drop(w);
            let n: usize = args.get(2).map_or(16, |s| s.parse().unwrap());
            let srcs: Vec<String> = stdin
                .lock()
                .lines()
                .filter_map(|l| String::from_utf8(unhex(&l.unwrap())).ok())
                .collect();
            let base: Vec<String> = srcs.iter().map(|s| lex_case(s, false, false)).collect();
            let srcs = std::sync::Arc::new(srcs);
            let base = std::sync::Arc::new(base);
            let mut handles = vec![];
            for t in 0..n {
                let srcs = srcs.clone();
                let base = base.clone();
                handles.push(std::thread::spawn(move || {
                    let mut bad = vec![];
                    let m = srcs.len();
                    // each thread walks the inputs with its own stride/offset
                    let stride = [1usize, 3, 7, 11, 13, 17, 19, 23][t % 8];
                    let mut idx = (t * 7919) % m.max(1);
                    for _ in 0..m {
                        let d = lex_case(&srcs[idx], false, false);
                        if d != base[idx] {
                            bad.push(idx);
                        }
                        idx = (idx + stride) % m;
                    }
                    bad
                }));
            }
            let mut total_bad = vec![];
            for h in handles {
                total_bad.extend(h.join().unwrap());
            }
            total_bad.sort_unstable();
            total_bad.dedup();
            let mut w = std::io::BufWriter::new(std::io::stdout().lock());
            writeln!(w, "\nTHREADS n={n} cases={} mismatches={}", srcs.len(), total_bad.len()).unwrap();
            for i in total_bad {
                writeln!(w, "MISMATCH {i} {}", hex(srcs[i].as_bytes())).unwrap();
            }
            w.flush().unwrap();
            return;
        }
        // tables: enum numbering, keyword maps (by execution), unicode predicate tables
        "tables" => {
            for t in TokenType::iter() {
                writeln!(w, "TT {} {}", t as u16, t).unwrap();
            }
            for e in ErrorKind::iter() {
                writeln!(w, "EK {} {} {}", e as u16, e, u8::from(e.is_internal())).unwrap();
            }
            for c in TokenChannel::iter() {
                writeln!(w, "CH {} {}", c as u8, c).unwrap();
            }
            writeln!(w, "WS {}", ranges(char::is_whitespace)).unwrap();
            writeln!(w, "XIDS {}", ranges(unicode_ident::is_xid_start)).unwrap();
            writeln!(w, "XIDC {}", ranges(unicode_ident::is_xid_continue)).unwrap();
            // cross-check against the crate's own use of the predicates
            let ns_ok = (0..=0x11_0000u32).filter_map(char::from_u32).all(|c| {
                (vh::is_macro_percent(c, false) && c != '*') == (unicode_ident::is_xid_start(c) || c == '_')
            });
            writeln!(w, "NSCHECK {}", u8::from(ns_ok)).unwrap();
        }
        // helpers: "<fn> <hexarg> [extra...]" per line
        "helpers" => {
            for line in stdin.lock().lines() {
                let line = line.unwrap();
                let parts: Vec<&str> = line.split_whitespace().collect();
                if parts.is_empty() {
                    continue;
                }
                let arg = parts.get(1).map_or(String::new(), |h| String::from_utf8(unhex(h)).unwrap_or_default());
                let res = panic::catch_unwind(|| match parts[0] {
                    "dec" => num(vh::try_parse_decimal(&arg, parts[2] == "1", parts[3] == "1")),
                    "hexint" => num(vh::try_parse_hex_integer(&arg)),
                    "hexstr" => match vh::parse_sas_hex_string(&arg) {
                        Ok(s) => format!("ok {}", hex(s.as_bytes())),
                        Err(e) => format!("err {}", e as u16),
                    },
                    "amp" => {
                        let (b, n) = vh::is_macro_amp(&arg);
                        format!("{} {n}", u8::from(b))
                    }
                    "resolve" => format!("{:?}", vh::get_macro_resolve_ops_from_amps(parts[2].parse().unwrap())),
                    "mnemonic" => {
                        let (t, n) = vh::is_macro_eval_mnemonic(&arg);
                        format!("{} {n}", t.map_or("-".to_string(), |t| (t as u16).to_string()))
                    }
                    "mstat" => format!("{}", u8::from(vh::is_macro_stat(&arg))),
                    "mcall" => match vh::lex_macro_call_stat_or_label(&arg) {
                        Ok((t, n)) => format!("ok {} {n}", t as u16),
                        Err(e) => format!("err {}", e as u16),
                    },
                    "kw" => vh::parse_keyword(&arg).map_or("-".to_string(), |t| (t as u16).to_string()),
                    "mkw" => vh::parse_macro_keyword(&arg).map_or("-".to_string(), |t| (t as u16).to_string()),
                    #[cfg(feature = "macro_sep")]
                    "sep" => {
                        let prev = if parts[2] == "-" { None } else { tok_by_u16(parts[2].parse().unwrap()) };
                        let t = tok_by_u16(parts[3].parse().unwrap()).unwrap();
                        format!("{}", u8::from(vh::needs_macro_sep(prev, t)))
                    }
                    _ => "unknown".to_string(),
                });
                match res {
                    Ok(s) => writeln!(w, "{} => {s}", line.trim()).unwrap(),
                    Err(_) => writeln!(w, "{} => panic", line.trim()).unwrap(),
                }
            }
        }
        // buf: hand-built buffers. Block format:
        //   BUF <id> / T ch ty byte char line payload / L byte char / LIT hex / ENDBUF
        "buf" => {
            let mut lines: Vec<(u32, u32)> = vec![];
            let mut toks = vec![];
            let mut lit = String::new();
            for line in stdin.lock().lines() {
                let line = line.unwrap();
                let p: Vec<&str> = line.split_whitespace().collect();
                match p.first().copied() {
                    Some("BUF") => {
                        lines.clear();
                        toks.clear();
                        lit.clear();
                        writeln!(w, "{}", line.trim()).unwrap();
                    }
                    Some("T") => toks.push((
                        chan_by_u8(p[1].parse().unwrap()).unwrap(),
                        tok_by_u16(p[2].parse().unwrap()).unwrap(),
                        p[3].parse().unwrap(),
                        p[4].parse().unwrap(),
                        p[5].parse().unwrap(),
                        parse_payload(p[6]),
                    )),
                    Some("L") => lines.push((p[1].parse().unwrap(), p[2].parse().unwrap())),
                    Some("LIT") => lit = String::from_utf8(unhex(p.get(1).copied().unwrap_or(""))).unwrap(),
                    Some("ENDBUF") => {
                        let b = TokenizedBuffer::verif_from_raw(&lines, &toks, lit.clone());
                        let mut out = String::new();
                        dump_buffer(&mut out, &b, None, true);
                        w.write_all(out.as_bytes()).unwrap();
                    }
                    _ => {}
                }
            }
        }
        _ => {
            eprintln!("usage: implrun lex|lexa|lext|threads|tables|helpers|buf < input");
            std::process::exit(2);
        }
    }
    w.flush().unwrap();
}
