"""Correspondence: extracted model vs implementation on the same inputs, byte for byte."""
import os, subprocess, concurrent.futures as cf
from common import hexline, parse_dump, NCPU, Case
import impl


def _run_chunk(args):
    exe, mode, profile, sep, lines, timeout = args
    cmd = [exe, mode, profile] + (["sep"] if sep else [])
    try:
        p = subprocess.run(cmd, input=("\n".join(lines) + "\n").encode(), capture_output=True, timeout=timeout)
        return p.stdout.decode("utf-8", errors="replace"), p.returncode
    except subprocess.TimeoutExpired as e:
        return (e.stdout or b"").decode("utf-8", errors="replace") + "\nOUT timeout\n", -9


def run_model(exe, inputs, profile="debug", sep=False, mode="lex", timeout=900, jobs=NCPU):
    hexes = [hexline(s) for s in inputs]
    n = len(hexes)
    if n == 0:
        return []
    k = max(1, min(jobs, n // 40 + 1))
    size = (n + k - 1) // k
    chunks = [hexes[i:i + size] for i in range(0, n, size)]
    cases = []
    with cf.ThreadPoolExecutor(max_workers=k) as ex:
        for ci, (text, rc) in enumerate(ex.map(_run_chunk, [(exe, mode, profile, sep, ch, timeout) for ch in chunks])):
            cs = parse_dump(text)
            base = ci * size
            for c in cs:
                c.idx += base
            while len(cs) < len(chunks[ci]):
                c = Case(base + len(cs), chunks[ci][len(cs)])
                c.outcome = "crash"
                c.text = ["OUT crash"]
                cs.append(c)
            cases.extend(cs)
    return cases


def norm(lines, strip_acc=True):
    out = []
    for x in lines:
        if x.startswith("G ") or x.startswith("TR "):
            continue
        if x.startswith("OUT panic"):
            x = "OUT panic"
        if strip_acc and x.startswith("A "):
            p = x.split(" ")
            x = " ".join(p[:13])
        out.append(x)
    return out


def ghost(case):
    for x in case.text:
        if x.startswith("G "):
            return dict(kv.split("=") for kv in x[2:].split(" "))
    return {}


# ---------------------------------------------------------------- property-specific views
# The theorems of a property speak about some observables of the model's run; they transfer to the
# implementation on an input as soon as model and implementation agree on those observables there.
# A view lists, per dump line tag, the fields the property's statement reads (see DESIGN 0.1):
#   T idx type chan byte char line payload | R idx chan type start stop line col endline endcol payload
#   A idx chan type bytestart byteend start stop line col endline endcol payload
#   E kind byte char line col last | L byte char | LIT hex | OUT outcome | END configuration
# "k7" = first letter of field 7 (payload kind); "n7" = field 7 if it is a numeric payload, else its kind;
# "m7" = field 7 if it is a numeric payload, else "-"; "eof2" = whether field 2 is the EOF type.
VIEWS = {
    "C01": {"OUT": [1], "END": None, "only_ok": False},
    "C02": {"T": [1, "eof2", 4], "R": [1, 4, 5], "A": [1, 4, 5, 6, 7]},
    "C03": {"T": [1, 4, 5], "R": [1, 4, 5], "A": [1, 4, 5, 6, 7], "E": [2, 3]},
    "C04": {"L": None, "T": [1, 4, 5, 6], "R": [1, 4, 5, 6, 7, 8, 9], "A": [1, 6, 7, 8, 9, 10, 11], "E": [2, 3, 4, 5]},
    "C06": {"T": [1, 2, 3, 4, "k7"], "R": [1, 2, 3, 4, 5, "k10"], "A": [1, 2, 3, 4, 5, "k12"]},
    "C07": {"T": [1, 2, 4, 7], "LIT": None, "R": [1, 3, 10], "A": [1, 3, 12]},
    "C08": {"T": [1, 2, 4, "m7"], "R": [1, 3, "m10"], "A": [1, 3, "m12"]},
    "C09": {"E": None, "T": [1, 2, 4]},
    "C10": {"T": [1, 2, 3]},
    "C12": {"E": None, "END": None, "OUT": [1], "only_ok": False},
    "C13": {"T": [1, 2, 3, 4]},
    "C14": {"E": None, "T": [1, 2, 3, 4]},
    "C16": {"E": None, "T": [1, 2, 3, 4, 5, "n7"]},
}


def project(lines, view, eof):
    out = []
    for x in lines:
        p = x.split(" ")
        sel = view.get(p[0], False)
        if sel is False:
            continue
        if sel is None:
            out.append(x)
            continue
        q = [p[0]]
        for f in sel:
            if isinstance(f, int):
                q.append(p[f] if f < len(p) else "")
            elif f.startswith("k"):
                j = int(f[1:])
                q.append(p[j][:1] if j < len(p) else "")
            elif f.startswith("m"):
                j = int(f[1:])
                v = p[j] if j < len(p) else ""
                q.append(v if v[:1] in ("I", "F") else "-")
            elif f.startswith("n"):
                j = int(f[1:])
                v = p[j] if j < len(p) else ""
                q.append(v if v[:1] in ("I", "F") else v[:1])
            elif f.startswith("eof"):
                j = int(f[3:])
                q.append("EOF" if j < len(p) and p[j] == eof else "-")
        out.append(" ".join(q))
    return out


def compare(mcases, icases, view=None, eof="0"):
    """returns list of (index, first differing pair); with a view, only the observables the property
    reads are compared, and (unless the view says otherwise) only on inputs on which the implementation returns"""
    diffs = []
    for m, i in zip(mcases, icases):
        a, b = norm(m.text), norm(i.text)
        if view is not None:
            if view.get("only_ok", True) and i.outcome != "ok":
                continue
            a, b = project(a, view, eof), project(b, view, eof)
        if a != b:
            k = next((j for j, (x, y) in enumerate(zip(a, b)) if x != y), min(len(a), len(b)))
            diffs.append((i.idx, a[k] if k < len(a) else None, b[k] if k < len(b) else None))
    return diffs
