"""Correspondence: extracted model vs implementation on the same inputs, byte for byte."""
import os, subprocess, concurrent.futures as cf
from common import hexline, parse_dump, NCPU, Case
import impl


def _run_chunk(args):
    exe, mode, profile, sep, lines, timeout = args
    cmd = [exe, mode, profile] + (["sep"] if sep else [])
    try:
        p = subprocess.run(cmd, input=("\n".join(lines) + "\n").encode(), capture_output=True, timeout=timeout)
        return p.stdout.decode("utf-8", errors="replace"), p.returncode
    except subprocess.TimeoutExpired as e:
        return (e.stdout or b"").decode("utf-8", errors="replace") + "\nOUT timeout\n", -9


def run_model(exe, inputs, profile="debug", sep=False, mode="lex", timeout=900, jobs=NCPU):
    hexes = [hexline(s) for s in inputs]
    n = len(hexes)
    if n == 0:
        return []
    k = max(1, min(jobs, n // 40 + 1))
    size = (n + k - 1) // k
    chunks = [hexes[i:i + size] for i in range(0, n, size)]
    cases = []
    with cf.ThreadPoolExecutor(max_workers=k) as ex:
        for ci, (text, rc) in enumerate(ex.map(_run_chunk, [(exe, mode, profile, sep, ch, timeout) for ch in chunks])):
            cs = parse_dump(text)
            base = ci * size
            for c in cs:
                c.idx += base
            while len(cs) < len(chunks[ci]):
                c = Case(base + len(cs), chunks[ci][len(cs)])
                c.outcome = "crash"
                c.text = ["OUT crash"]
                cs.append(c)
            cases.extend(cs)
    return cases


def norm(lines, strip_acc=True):
    out = []
    for x in lines:
        if x.startswith("G ") or x.startswith("TR "):
            continue
        if x.startswith("OUT panic"):
            x = "OUT panic"
        if strip_acc and x.startswith("A "):
            p = x.split(" ")
            x = " ".join(p[:13])
        out.append(x)
    return out


def ghost(case):
    for x in case.text:
        if x.startswith("G "):
            return dict(kv.split("=") for kv in x[2:].split(" "))
    return {}


def compare(mcases, icases):
    """returns list of (index, first differing pair)"""
    diffs = []
    for m, i in zip(mcases, icases):
        a, b = norm(m.text), norm(i.text)
        if a != b:
            k = next((j for j, (x, y) in enumerate(zip(a, b)) if x != y), min(len(a), len(b)))
            diffs.append((i.idx, a[k] if k < len(a) else None, b[k] if k < len(b) else None))
    return diffs
