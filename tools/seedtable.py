#!/usr/bin/env python3
"""Render the seeded-change x check matrix (from _build/matrix*.json, produced by tools/matrix.py on private
copies) as the markdown table of DESIGN.md 0.4. usage: seedtable.py [json ...] (later files override)"""
import json, sys, os
only = None
args = sys.argv[1:]
if args and args[0].startswith("--only="):
    only = set(args[0][7:].split(","))
    args = args[1:]
files = args or ["/verif/_build/matrix.json", "/verif/_build/matrix_v2.json", "/verif/_build/matrix_own.json"]
d = {}
for f in files:
    if os.path.exists(f):
        for sid, row in json.load(open(f)).items():
            d.setdefault(sid, {}).update(row)
props = [f"C{i:02d}" for i in range(1, 21)]
sym = {"pass": "·", "input": "**I**", "corr": "c", "error": "E"}
print("| seeded change | " + " | ".join(p[1:] for p in props) + " |")
print("|---|" + "|".join("---" for _ in props) + "|")
for sid in sorted(d):
    if only is not None and sid not in only:
        continue
    own = sid[:3]
    cells = []
    for p in props:
        v = d[sid].get(p)
        c = sym.get(v[0], "?") if v else " "
        cells.append(c)
    print(f"| `{sid}` | " + " | ".join(cells) + " |")
if only is not None:
    sys.exit(0)
own_ok = sum(1 for sid in d if d[sid].get(sid[:3], ["-"])[0] == "input")
own_c = sum(1 for sid in d if d[sid].get(sid[:3], ["-"])[0] == "corr")
print(f"\n{len(d)} seeded changes; own property's check reports a concrete failing input for {own_ok}, a broken correspondence only for {own_c}.")
