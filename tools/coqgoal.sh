#!/bin/bash
# debug helper: show the goal of file $1 (relative to /verif/coq) just before line $2 (the proof is cut there)
# usage: coqgoal.sh Proofs/X.v LINE [timeout]
cd /verif/coq
f=$1; n=$2; t=${3:-120}
tmp=$(mktemp -d /tmp/coqgoal.XXXX)
head -n $((n-1)) $f > $tmp/Cut.v
echo "Show. " >> $tmp/Cut.v
timeout $t coqc -q -noglob $(grep -E '^-(Q|R)' _CoqProject | tr '\n' ' ') $tmp/Cut.v 2>&1 | head -${4:-120}
rm -rf $tmp
