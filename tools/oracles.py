"""Direct oracles: independent executable statements of the properties, evaluated on the
implementation's dump (public observables only). Each returns a list of failure strings."""
import re, struct

MISSING = {  # error kind name -> token type name
    "MissingExpectedAssign": "ASSIGN", "MissingExpectedLParen": "LPAREN", "MissingExpectedRParen": "RPAREN",
    "MissingExpectedComma": "COMMA", "MissingExpectedFSlash": "FSLASH", "MissingExpectedSemiOrEOF": "SEMI",
}
EXPR_ENDS = ["StringExprEnd", "BitTestingLiteralExprEnd", "DateLiteralExprEnd", "DateTimeLiteralExprEnd",
             "NameLiteralExprEnd", "TimeLiteralExprEnd", "HexStringLiteralExprEnd"]
QUOTED = ["StringLiteral", "BitTestingLiteral", "DateLiteral", "DateTimeLiteral", "NameLiteral", "TimeLiteral", "HexStringLiteral"]
SUFFIX = {"StringLiteral": "", "BitTestingLiteral": "b", "DateLiteral": "d", "DateTimeLiteral": "dt", "NameLiteral": "n",
          "TimeLiteral": "t", "HexStringLiteral": "x", "StringExprEnd": "", "BitTestingLiteralExprEnd": "b",
          "DateLiteralExprEnd": "d", "DateTimeLiteralExprEnd": "dt", "NameLiteralExprEnd": "n", "TimeLiteralExprEnd": "t",
          "HexStringLiteralExprEnd": "x"}
SYMBOLS = {"PERCENT": ["%"], "LCURLY": ["{"], "RCURLY": ["}"], "LBRACK": ["["], "RBRACK": ["]"], "STAR": ["*"], "STAR2": ["**"],
           "EXCL": ["!"], "EXCL2": ["!!"], "BPIPE": ["¦"], "BPIPE2": ["¦¦"], "PIPE": ["|"], "PIPE2": ["||"],
           "PLUS": ["+"], "MINUS": ["-"], "GTLT": ["><"], "LTGT": ["<>"], "LT": ["<"], "LE": ["<="], "GT": [">"], "GE": [">="],
           "SoundsLike": ["=*"], "DOT": ["."], "DOLLAR": ["$"], "AT": ["@"], "HASH": ["#"], "QUESTION": ["?"], "COLON": [":"],
           "NOT": ["¬", "^", "~", "∘", "%^", "%~"], "NE": ["¬=", "^=", "~=", "∘=", "%^=", "%~="]}
VIRTUAL = {"LPAREN": "(", "RPAREN": ")", "COMMA": ",", "FSLASH": "/"}
MNEMONICS = {"KwLT": "LT", "KwLE": "LE", "KwEQ": "EQ", "KwIN": "IN", "KwNE": "NE", "KwGT": "GT", "KwGE": "GE", "KwAND": "AND", "KwOR": "OR", "KwNOT": "NOT"}


class Ctx:
    """per-case derived data shared by the oracles"""

    def __init__(self, case, tables):
        self.c = case
        self.t = tables
        self.src = case.src
        self.raw = case.raw
        self.n = len(case.raw)
        self.bom = 3 if self.src.startswith("﻿") else 0
        # byte offset -> char index for boundaries
        self.b2c = {}
        b = 0
        for i, ch in enumerate(self.src):
            self.b2c[b] = i
            b += len(ch.encode("utf-8"))
        self.b2c[b] = len(self.src)
        # line starts (byte offsets): after BOM for the first
        self.lf = [i for i, x in enumerate(case.raw) if x == 10]

    def is_boundary(self, b):
        return b in self.b2c

    def line_of(self, b):
        """1-based line number = 1 + number of LF strictly before byte b"""
        import bisect
        return 1 + bisect.bisect_left(self.lf, b)

    def col_of(self, b):
        import bisect
        k = bisect.bisect_left(self.lf, b)
        ls = self.lf[k - 1] + 1 if k > 0 else self.bom
        if b < ls:  # inside BOM
            return None
        return self.b2c[b] - self.b2c[ls]

    def tok_end(self, i):
        ts = self.c.toks
        return ts[i + 1].byte if i + 1 < len(ts) else ts[i].byte

    def text(self, i):
        t = self.c.toks[i]
        return self.raw[t.byte:self.tok_end(i)].decode("utf-8", errors="replace")

    def tname(self, i):
        return self.t.tt_name.get(self.c.toks[i].type, "?")


def ok_outcome(case):
    return case.outcome == "ok"


def c01(cx):
    c = cx.c
    out = []
    if c.outcome == "panic":
        out.append("panic " + c.outline[:160])
        return out
    if c.outcome == "aborted":
        out.append("aborted: iteration budget exhausted (hang)")
    if c.outcome not in ("ok", "aborted"):
        out.append("outcome " + str(c.outcome))
        return out
    for e in c.errs:
        if e.kind in cx.t.ek_internal or 9000 <= e.kind < 10000:
            out.append(f"internal error {e.kind} {cx.t.ek_name.get(e.kind)}")
    if c.iters is not None and c.iters > 8 * cx.n + 64:
        out.append("iterations above budget")
    if len(c.toks) + len(c.errs) + len(c.lines) > 16 * cx.n + 64:
        out.append("output not linear")
    return out


def c02(cx):
    c = cx.c
    out = []
    ts = c.toks
    EOF = cx.t.T("EOF")
    if not ts:
        return ["no tokens"]
    if ts[0].byte != cx.bom:
        out.append(f"first token starts at {ts[0].byte}, expected {cx.bom}")
    for a, b in zip(ts, ts[1:]):
        if a.byte > b.byte:
            out.append(f"offset decreases at token {b.idx}")
    for t in ts:
        if not cx.is_boundary(t.byte):
            out.append(f"token {t.idx} not on char boundary/out of range ({t.byte})")
    if ts[-1].type != EOF or ts[-1].byte != cx.n:
        out.append("last token is not EOF at end of text")
    if sum(1 for t in ts if t.type == EOF) != 1:
        out.append("EOF count != 1")
    if not out:
        cat = b"".join(cx.raw[ts[i].byte:cx.tok_end(i)] for i in range(len(ts)))
        if cat != cx.raw[cx.bom:]:
            out.append("concatenation of token texts != source")
    # accessors succeed; raw text accessor returns the slice
    if c.acc:
        if len(c.acc) != len(ts):
            out.append("accessor rows != tokens")
        for i, a in enumerate(c.acc):
            if any(x.startswith("!") or x == "panic" for x in a):
                out.append(f"accessor failed for token {i}: {' '.join(a)[:80]}")
                break
            if len(a) >= 13 and i < len(ts):
                want = cx.raw[ts[i].byte:cx.tok_end(i)]
                got = b"" if a[12] == "-" else bytes.fromhex(a[12])
                if got != want:
                    out.append(f"raw text accessor differs for token {i}")
                    break
    return out


def c03(cx):
    out = []
    for t in cx.c.toks:
        if cx.is_boundary(t.byte) and cx.b2c[t.byte] != t.char:
            out.append(f"token {t.idx} char offset {t.char} != {cx.b2c[t.byte]}")
    for k, e in enumerate(cx.c.errs):
        if cx.is_boundary(e.byte):
            if cx.b2c[e.byte] != e.char:
                out.append(f"error {k} char offset {e.char} != {cx.b2c[e.byte]}")
        else:
            out.append(f"error {k} byte offset {e.byte} not on a boundary")
    return out


def end_pos(cx, i):
    """DESIGN C04 reading: empty token -> its start; else one column past the last character,
    on the line that character is on."""
    t = cx.c.toks[i]
    e = cx.tok_end(i)
    if e == t.byte:
        return cx.line_of(t.byte), cx.col_of(t.byte)
    # byte offset of the last character
    lb = e - 1
    while lb > t.byte and (cx.raw[lb] & 0xC0) == 0x80:
        lb -= 1
    col = cx.col_of(lb)
    return cx.line_of(lb), (None if col is None else col + 1)


def c04(cx):
    c = cx.c
    out = []
    if not c.acc and not c.rows:
        return ["no accessor rows in dump"]
    ts = c.toks
    if len(c.lines) != 1 + len(cx.lf):
        out.append(f"line count {len(c.lines)} != {1 + len(cx.lf)}")
    for i, t in enumerate(ts):
        if not cx.is_boundary(t.byte) or (i + 1 < len(ts) and ts[i + 1].byte < t.byte):
            continue
        line = cx.line_of(t.byte)
        col = cx.col_of(t.byte)
        el, ec = end_pos(cx, i)
        if i < len(c.rows) and len(c.rows[i]) >= 9:
            r = c.rows[i]
            got = (int(r[5]), int(r[6]), int(r[7]), int(r[8]))
            if got != (line, col, el, ec):
                out.append(f"token {i} ({cx.tname(i)}) line/col/end {got} != {(line, col, el, ec)}")
        if t.line + 1 != line:
            out.append(f"token {i} line index {t.line}+1 != {line}")
    for k, e in enumerate(c.errs):
        if not cx.is_boundary(e.byte):
            continue
        if e.line != cx.line_of(e.byte) or e.col != cx.col_of(e.byte):
            out.append(f"error {k} line/col {(e.line, e.col)} != {(cx.line_of(e.byte), cx.col_of(e.byte))}")
    return out


def c05(cx):
    c = cx.c
    out = []
    if len(c.rows) != len(c.toks) or len(c.acc) != len(c.toks):
        return [f"bulk rows {len(c.rows)} / accessor rows {len(c.acc)} / tokens {len(c.toks)}"]
    for i, (r, a) in enumerate(zip(c.rows, c.acc)):
        if r == ["panic"] or a[1:] == ["panic"]:
            out.append(f"panic at row {i}")
            continue
        # R: idx chan type start stop line col eline ecol payload
        # A: idx chan type sbyte ebyte start end sline scol eline ecol payload ...
        want = [a[0], a[1], a[2], a[5], a[6], a[7], a[8], a[9], a[10], a[11]]
        if r != want:
            out.append(f"row {i}: bulk {r} != accessors {want}")
    return out


def c07_partition(cx):
    out = []
    pos = 0
    for t in cx.c.toks:
        p = t.payload
        if p and p[0] == "S":
            if p[1] != pos or p[2] < p[1]:
                out.append(f"payload range of token {t.idx} {p[1:]} not contiguous at {pos}")
            pos = max(pos, p[2])
    if pos != len(cx.c.lit):
        out.append(f"payload ranges cover {pos} of {len(cx.c.lit)} literal bytes")
    return out


def unquote(kind, text, q=None):
    if kind == "quoted":
        return text.replace(q + q, q)
    if kind == "str":
        return re.sub(r"%([%'\"()])", r"\1", text)
    return text


def hex_decode(body):
    """Latin-1 decode iff the body (commas removed) consists of hex digit pairs"""
    b = body.replace(",", "")
    if len(b) % 2 or not re.fullmatch(r"[0-9A-Fa-f]*", b):
        return None
    return bytes.fromhex(b).decode("latin-1")


def c07(cx, str_call_tokens=None):
    """content: payload == unquoted text; no payload => nothing to unquote.
    str_call_tokens: set of token indexes that are %str/%nrstr text (computed by c07_strctx)."""
    out = c07_partition(cx)
    c = cx.c
    ts = c.toks
    T = cx.t.tt_name
    strtok = str_call_tokens if str_call_tokens is not None else c07_strctx(cx)
    errs_at = {}
    for e in c.errs:
        errs_at.setdefault(e.byte, set()).add(cx.t.ek_name.get(e.kind))
    depth_start = None
    for i, t in enumerate(ts):
        name = T.get(t.type)
        text = cx.text(i)
        want = None  # expected unquoted value, or None if not a string-payload kind
        if name in QUOTED and text[:1] in ("'", '"'):
            q = text[0]
            suf = SUFFIX[name]
            end = cx.tok_end(i)
            unterminated = "UnterminatedStringLiteral" in errs_at.get(end, ())
            body = text[1:]
            if not (unterminated and name == "StringLiteral" and not _closed(text, q)):
                body = text[1:len(text) - len(suf) - 1]
            if name == "HexStringLiteral":
                dec = hex_decode(body)
                if dec is not None:
                    want = dec
                    must_payload = True
                else:
                    if "InvalidHexStringConstant" not in errs_at.get(end, ()):
                        out.append(f"token {i}: invalid hex string without error")
                    want = unquote("quoted", body, q)
                    must_payload = False
            else:
                want = unquote("quoted", body, q)
                must_payload = False
        elif name == "StringExprText":
            want = unquote("quoted", text, '"')
        elif name == "MacroString" and i in strtok:
            want = unquote("str", text)
        elif name == "StringExprEnd" and text and "UnterminatedStringLiteral" in errs_at.get(cx.tok_end(i), ()) and cx.tok_end(i) == cx.n:
            # unterminated string expression: the token is the trailing text up to end of input
            want = unquote("quoted", text, '"')
        else:
            if t.payload and t.payload[0] == "S":
                out.append(f"token {i} ({name}) carries an unexpected string payload")
            continue
        p = t.payload
        if p and p[0] == "S":
            got = c.lit[p[1]:p[2]].decode("utf-8", errors="replace")
            if got != want:
                out.append(f"token {i} ({name}) payload {got!r} != unquoted {want!r}")
        else:
            inner = want
            raw_inner = text
            if name in QUOTED:
                raw_inner = body
            if name == "HexStringLiteral" and hex_decode(body) is not None:
                out.append(f"token {i}: valid hex string without payload")
            elif name != "HexStringLiteral" or hex_decode(body) is None:
                if inner != raw_inner:
                    out.append(f"token {i} ({name}) has no payload but text {raw_inner!r} needs unquoting")
    return out


def _closed(text, q):
    """does text (starting with q) contain its closing quote (after pairing escapes)?"""
    i = 1
    n = len(text)
    while i < n:
        if text[i] == q:
            if i + 1 < n and text[i + 1] == q:
                i += 2
                continue
            return True
        i += 1
    return False


def c07_strctx(cx):
    """indexes of MacroString tokens that are %str/%nrstr text: tokens between the hidden LPAREN
    that follows a hidden KwmStr/KwmNrStr and its matching hidden RPAREN (nesting by hidden parens)."""
    T = cx.t.tt_name
    res = set()
    stack = []  # True for str-call contexts opened
    ts = cx.c.toks
    i = 0
    pending = False
    while i < len(ts):
        t = ts[i]
        name = T.get(t.type)
        if name in ("KwmStr", "KwmNrStr") and t.chan == 1:
            pending = True
        elif name == "LPAREN" and t.chan == 1 and pending:
            stack.append([i, 0])
            pending = False
        elif name == "RPAREN" and t.chan == 1 and stack:
            stack.pop()
        elif name == "LPAREN" and t.chan == 0 and stack:
            # parentheses of %str text are part of the text; a parenthesis *token* on the default channel
            # belongs to a call nested in the text, whose arguments are not %str text
            stack[-1][1] += 1
        elif name == "RPAREN" and t.chan == 0 and stack and stack[-1][1] > 0:
            stack[-1][1] -= 1
        elif name == "MacroString" and stack and stack[-1][1] == 0:
            # directly in a str call only if no other construct was opened since: approximated by
            # the payload rule itself - escapes only exist in str text
            res.add(i)
        elif name not in ("WS", "CStyleComment"):
            if pending and name not in ("WS", "CStyleComment"):
                pending = False
        i += 1
    return res


def c08(cx):
    out = []
    c = cx.c
    T = cx.t.tt_name
    errs_at = {}
    for e in c.errs:
        if e.last is not None:
            errs_at.setdefault(e.last, set()).add(cx.t.ek_name.get(e.kind))
    for i, t in enumerate(c.toks):
        name = T.get(t.type)
        if name not in ("IntegerLiteral", "FloatLiteral", "FloatExponentLiteral"):
            continue
        text = cx.text(i)
        bad = errs_at.get(i, set()) & {"InvalidNumericLiteral", "UnterminatedHexNumericLiteral"}
        p = t.payload
        if bad:
            continue
        if name == "IntegerLiteral":
            try:
                if text[-1:] in "xX":
                    v = int(text[:-1], 16)
                    if not re.fullmatch(r"[0-9][0-9A-Fa-f]*[xX]", text):
                        out.append(f"token {i}: hex integer text {text!r} has wrong shape")
                else:
                    if not re.fullmatch(r"[0-9]+", text):
                        out.append(f"token {i}: integer text {text!r} has wrong shape")
                    v = int(text)
            except ValueError:
                out.append(f"token {i}: integer text {text!r} unparsable")
                continue
            if not p or p[0] != "I" or p[1] != v or v > 2**64 - 1:
                out.append(f"token {i}: integer payload {p} != value of {text!r}")
        else:
            is_exp = bool(re.search(r"[eE]", text))
            if (name == "FloatExponentLiteral") != is_exp:
                out.append(f"token {i}: type {name} does not follow notation of {text!r}")
            if not re.fullmatch(r"([0-9]+\.?[0-9]*|\.[0-9]+)([eE][+-]?[0-9]+)?", text):
                out.append(f"token {i}: float text {text!r} has wrong shape")
                continue
            try:
                v = float(text)
            except ValueError:
                out.append(f"token {i}: float text {text!r} unparsable")
                continue
            bits = struct.unpack("<Q", struct.pack("<d", v))[0]
            if not p or p[0] != "F" or p[1] != bits:
                out.append(f"token {i}: float payload {p} != correctly rounded {text!r} ({bits:016x})")
    return out


def c09(cx):
    out = []
    c = cx.c
    ts = c.toks
    T = cx.t
    prev = 0
    for k, e in enumerate(c.errs):
        if e.byte > cx.n or not cx.is_boundary(e.byte):
            out.append(f"error {k} offset {e.byte} outside source / not on boundary")
            continue
        if e.last is not None:
            if e.last >= len(ts):
                out.append(f"error {k} names token {e.last} which does not exist")
            elif ts[e.last].byte > e.byte:
                out.append(f"error {k} names token {e.last} starting after the error")
        if e.byte < prev:
            out.append(f"error {k} out of source order")
        prev = max(prev, e.byte)
        name = T.ek_name.get(e.kind)
        if name in MISSING:
            tt = T.T(MISSING[name])
            if not any(t.type == tt and t.byte == e.byte and cx.tok_end(i) == t.byte and i + 1 < len(ts) for i, t in enumerate(ts)):
                out.append(f"error {k} {name} without zero-width recovery token at {e.byte}")
    inv = {T.T(v): T.ek.get(k) for k, v in MISSING.items()}
    for i, t in enumerate(ts[:-1]):
        if cx.tok_end(i) != t.byte or t.type not in inv:
            continue
        if t.type == T.T("SEMI") and t.byte == cx.n:
            continue
        if not any(e.kind == inv[t.type] and e.byte == t.byte for e in c.errs):
            out.append(f"zero-width {T.tt_name[t.type]} token {i} without its error")
    return out


ARG_BUILTINS = None


def c10(cx):
    out = []
    c = cx.c
    ts = c.toks
    N = cx.t.tt_name
    depth = 0
    for i, t in enumerate(ts):
        name = N.get(t.type)
        if name == "StringExprStart":
            depth += 1
        elif name in EXPR_ENDS:
            depth -= 1
            if depth < 0:
                out.append(f"string expression end without start at token {i}")
                depth = 0
        elif name == "StringExprText" and depth == 0:
            out.append(f"StringExprText outside a string expression at token {i}")
        elif name == "DatalinesStart":
            if not (i + 2 < len(ts) and N.get(ts[i + 1].type) == "DatalinesData" and N.get(ts[i + 2].type) == "SEMI"):
                out.append(f"DatalinesStart at {i} not followed by data and terminator")
        elif name == "DatalinesData":
            if not (i > 0 and N.get(ts[i - 1].type) == "DatalinesStart"):
                out.append(f"DatalinesData at {i} without start")
        elif name == "MacroLabel":
            j = i + 1
            while j < len(ts) and ts[j].chan != 0 and not (N.get(ts[j].type) == "COLON"):
                j += 1
            if not (j < len(ts) and N.get(ts[j].type) == "COLON" and ts[j].chan == 1):
                out.append(f"MacroLabel at {i} without hidden colon")
        elif name in builtin_arg_names(cx.t):
            j = i + 1
            while j < len(ts) and N.get(ts[j].type) in ("WS", "CStyleComment"):
                j += 1
            if not (j < len(ts) and N.get(ts[j].type) == "LPAREN" and ts[j].chan == t.chan):
                out.append(f"built-in {name} at {i} not followed by '(' on its channel")
    if depth != 0:
        out.append(f"{depth} string expression(s) not closed")
    return out


_BA = {}


def builtin_arg_names(tables):
    """argument-taking built-in macro function keyword types: KwmCmpres..KwmNrStr except KwmSysmexecdepth"""
    k = id(tables)
    if k not in _BA:
        lo, hi = tables.T("KwmCmpres"), tables.T("KwmNrStr")
        _BA[k] = {n for n, v in tables.tt.items() if lo <= v <= hi and n != "KwmSysmexecdepth"}
    return _BA[k]


# ------------------------------------------------------------------ C06 shapes


def c06(cx, kwmap=None):
    """kwmap: dict upper-case text -> (kw type or None, macro kw type or None) from executed helpers"""
    out = []
    c = cx.c
    ts = c.toks
    t_ = cx.t
    N = t_.tt_name
    errs_end = {}
    for e in c.errs:
        errs_end.setdefault(e.byte, set()).add(t_.ek_name.get(e.kind))
    n = len(ts)
    for i, t in enumerate(ts):
        name = N.get(t.type, "?")
        text = cx.text(i)
        end = cx.tok_end(i)
        chan = t.chan
        err = errs_end.get(end, set())
        bad = None
        is_comment = name in ("CStyleComment", "PredictedCommentStat", "MacroComment")
        if is_comment != (chan == 2):
            bad = "comment channel rule"
        elif name == "WS" and chan != 1:
            bad = "WS not hidden"
        elif chan == 1 and name not in ("WS", "CatchAll", "COLON", "KwmStr", "KwmNrStr", "LPAREN", "RPAREN"):
            bad = "type not allowed on hidden channel"
        elif name == "EOF":
            if text or i != n - 1:
                bad = "EOF shape"
        elif name in ("MacroSep", "MacroStringEmpty"):
            if text:
                bad = "must be empty"
        elif text == "" and name not in ("SEMI", "LPAREN", "RPAREN", "COMMA", "ASSIGN", "FSLASH", "DatalinesData", "StringExprEnd"):
            bad = "empty token of a type that may not be empty"
        elif name == "WS":
            if not text or not all(t_.is_ws(ch) for ch in text):
                bad = "WS shape"
        elif name == "CatchAll":
            if len(text) != 1:
                bad = "CatchAll shape"
        elif name == "SEMI":
            if text == "":
                if not ("MissingExpectedSemiOrEOF" in err or end == cx.n or "UnterminatedDatalines" in err):
                    bad = "virtual SEMI without error"
            elif not re.fullmatch(r";+", text) or (len(text) > 1 and not (i > 0 and N.get(ts[i - 1].type) == "DatalinesData")):
                bad = "SEMI shape"
            elif len(text) not in (1, 4) and "UnterminatedDatalines" not in err and "UnterminatedDatalines" not in errs_end.get(t.byte, set()):
                bad = "SEMI length"
        elif name in VIRTUAL:
            if text == "":
                if not any(k.startswith("MissingExpected") for k in err):
                    bad = "virtual token without error"
            elif text != VIRTUAL[name]:
                bad = "symbol shape"
        elif name == "ASSIGN":
            if text == "":
                if "MissingExpectedAssign" not in err:
                    bad = "virtual token without error"
            elif text not in ("=", "%="):
                bad = "symbol shape"
        elif name == "AMP":
            if not re.fullmatch(r"&+", text):
                bad = "AMP shape"
        elif name in SYMBOLS:
            if text not in SYMBOLS[name]:
                bad = "symbol shape"
        elif name in MNEMONICS:
            if text.upper() != MNEMONICS[name]:
                bad = "mnemonic shape"
        elif name == "IntegerLiteral":
            if not re.fullmatch(r"[0-9]+|[0-9][0-9A-Fa-f]*[xX]?", text):
                bad = "integer shape"
        elif name in ("FloatLiteral", "FloatExponentLiteral"):
            if not re.fullmatch(r"[0-9A-Fa-f.]+([eE][+-]?[0-9]*)?[xX]?", text):
                bad = "float shape"
        elif name in QUOTED:
            q = text[:1]
            suf = SUFFIX[name]
            if q not in ("'", '"'):
                bad = "quoted literal does not start with a quote"
            elif _closed(text, q):
                j = _close_index(text, q)
                if text[j + 1:].lower() != suf:
                    bad = "quoted literal suffix"
            elif not (name == "StringLiteral" and "UnterminatedStringLiteral" in err and end == cx.n):
                bad = "unterminated literal without error"
        elif name == "StringExprStart":
            if text != '"':
                bad = "shape"
        elif name == "StringExprText":
            if not text or _has_unpaired(text, '"'):
                bad = "StringExprText shape"
        elif name in EXPR_ENDS:
            if text[:1] == '"' and text[1:].lower() == SUFFIX[name]:
                pass
            elif name == "StringExprEnd" and "UnterminatedStringLiteral" in err and end == cx.n:
                pass
            else:
                bad = "string expression end shape"
        elif name == "CStyleComment":
            if not text.startswith("/*"):
                bad = "comment opener"
            elif text.find("*/", 2) == len(text) - 2 and len(text) >= 4:
                pass
            elif "*/" not in text[2:] and "UnterminatedComment" in err and end == cx.n:
                pass
            else:
                bad = "comment closer"
        elif name == "PredictedCommentStat":
            if not text.startswith("*") or (";" in text[:-1]) or not (text.endswith(";") or end == cx.n):
                bad = "statement comment shape"
        elif name == "MacroComment":
            if not text.startswith("%*") or not (_mc_ends(text) or end == cx.n):
                bad = "macro comment shape"
        elif name == "DatalinesStart":
            if not re.fullmatch(r"(?i)(datalines|cards|lines)4?\s*;", text) and not (re.fullmatch(r"(?i)(datalines|cards|lines)4?", text.rstrip(";").rstrip()[:10].rstrip()) and all(t_.is_ws(ch) for ch in text.rstrip(";")[len(text.rstrip(";").rstrip()):])):
                bad = "datalines start shape"
        elif name == "DatalinesData":
            pass
        elif name == "CharFormat":
            if not re.fullmatch(r"\$([^\W\d]\w*)?[0-9]*\.[0-9]*", text) and not _charformat(text, t_):
                bad = "char format shape"
        elif name == "MacroVarResolve":
            p = t.payload
            if not re.fullmatch(r"&+", text) or not p or p[0] != "I" or len(text) != 2 ** p[1]:
                bad = "resolve op shape/payload"
        elif name == "MacroVarTerm":
            if text != ".":
                bad = "shape"
        elif name == "MacroString":
            if not text:
                bad = "empty macro string"
        elif name in ("MacroIdentifier", "MacroLabel"):
            if not (text.startswith("%") and len(text) > 1 and t_.is_name_start(text[1])):
                bad = "macro identifier shape"
            elif not all((ch.isalnum() or ch == "_") if ch.isascii() else t_.is_xid_continue(ch) for ch in text[2:]):
                # the token is exactly %name: nothing after the name belongs to it (DESIGN 6.1)
                bad = "macro identifier shape: characters after the name"
            elif kwmap is not None and text[1:].isascii() and kwmap.get(text[1:].upper(), (None, None))[1] is not None:
                bad = "macro keyword lexed as identifier"
        elif name.startswith("Kwm"):
            if not text.startswith("%"):
                bad = "macro keyword without %"
            elif kwmap is not None and kwmap.get(text[1:].upper(), (None, None))[1] != t.type:
                bad = "macro keyword spelling"
            elif (name in ("KwmStr", "KwmNrStr")) != (chan == 1):
                bad = "macro keyword channel"
        elif name == "Identifier":
            if not (t_.is_name_start(text[0])):
                bad = "identifier start"
            elif kwmap is not None and text.isascii() and kwmap.get(text.upper(), (None, None))[0] is not None:
                # allowed only in %macro name / parameter position (DESIGN 6.1)
                prev = next((N.get(p.type) for p in reversed(ts[:i]) if p.chan == 0), None)
                if not (prev in ("KwmMacro", "LPAREN", "COMMA") and re.fullmatch(r"[A-Za-z_][A-Za-z0-9_]*", text)):
                    bad = "keyword lexed as identifier"
        elif name.startswith("Kw"):
            if kwmap is not None and kwmap.get(text.upper(), (None, None))[0] != t.type:
                bad = "keyword spelling"
        if bad:
            out.append(f"token {i} {name} chan={chan} text={text[:30]!r}: {bad}")
    return out


def _close_index(text, q):
    i = 1
    n = len(text)
    while i < n:
        if text[i] == q:
            if i + 1 < n and text[i + 1] == q:
                i += 2
                continue
            return i
        i += 1
    return -1


def _has_unpaired(text, q):
    i = 0
    n = len(text)
    while i < n:
        if text[i] == q:
            if i + 1 < n and text[i + 1] == q:
                i += 2
                continue
            return True
        i += 1
    return False


def _mc_ends(text):
    """%* comment: ends with the first ';' outside quotes"""
    quote = None
    for k, ch in enumerate(text[2:], 2):
        if ch == ";" and quote is None:
            return k == len(text) - 1
        if ch in "'\"":
            if quote is None:
                quote = ch
            elif quote == ch:
                quote = None
    return False


def _charformat(text, t_):
    if not text.startswith("$"):
        return False
    s = text[1:]
    i = 0
    if s and t_.is_name_start(s[0]):
        i = 1
        while i < len(s) and t_.is_xid_continue(s[i]):
            i += 1
    while i < len(s) and s[i].isdigit() and s[i].isascii():
        i += 1
    if i >= len(s) or s[i] != ".":
        return False
    i += 1
    return all(ch.isascii() and ch.isdigit() for ch in s[i:])


# ------------------------------------------------------------------ relational oracles


def sig_tokens(case, with_offsets=True):
    return [(t.type, t.chan, t.byte, t.char, t.line, t.payload) if with_offsets else (t.type, t.chan, t.payload) for t in case.toks]


def sig_errors(case):
    return [(e.kind, e.byte, e.char, e.line, e.col, e.last) for e in case.errs]


def c16_pair(base, var):
    """case variant must have same types, channels, offsets, numeric payloads, errors"""
    out = []
    if base.outcome != var.outcome:
        return [f"outcome {base.outcome} vs {var.outcome}"]

    def proj(c):
        return [(t.type, t.chan, t.byte, t.char, t.line, (t.payload if not t.payload or t.payload[0] != "S" else ("S", t.payload[1], t.payload[2]))) for t in c.toks]

    if proj(base) != proj(var):
        a, b = proj(base), proj(var)
        k = next((i for i, (x, y) in enumerate(zip(a, b)) if x != y), min(len(a), len(b)))
        out.append(f"token streams differ at {k}: {a[k] if k < len(a) else None} vs {b[k] if k < len(b) else None}")
    if sig_errors(base) != sig_errors(var):
        out.append("errors differ")
    return out


def c17_pair(plain, bommed):
    out = []
    if plain.outcome != bommed.outcome:
        return [f"outcome {plain.outcome} vs {bommed.outcome}"]
    a = [(t.type, t.chan, t.byte + 3, t.char + 1, t.line, t.payload) for t in plain.toks]
    b = sig_tokens(bommed)
    if a != b:
        k = next((i for i, (x, y) in enumerate(zip(a, b)) if x != y), min(len(a), len(b)))
        out.append(f"tokens differ at {k}: {a[k] if k < len(a) else None} vs {b[k] if k < len(b) else None}")
    ea = [(e.kind, e.byte + 3, e.char + 1, e.line, e.col, e.last) for e in plain.errs]
    if ea != sig_errors(bommed):
        out.append("errors differ")
    if plain.lit != bommed.lit:
        out.append("literal buffers differ")
    la = [(b_ + 3, c_ + 1) for b_, c_ in plain.lines]
    if la != bommed.lines:
        out.append("line tables differ")
    # columns unchanged
    if plain.rows and bommed.rows:
        ca = [(r[5], r[6], r[7], r[8]) for r in plain.rows]
        cb = [(r[5], r[6], r[7], r[8]) for r in bommed.rows]
        if ca != cb:
            out.append("lines/columns differ")
    return out


def c18_pair(nosep, sep, tables):
    """sep build output minus MacroSep tokens == nosep build output"""
    out = []
    MS = tables.T("MacroSep")
    if nosep.outcome != sep.outcome:
        return [f"outcome {nosep.outcome} vs {sep.outcome}"]
    if any(t.type == MS for t in nosep.toks):
        out.append("MacroSep emitted without the feature")
    kept = []
    renum = {}
    for t in sep.toks:
        if t.type == MS:
            continue
        renum[t.idx] = len(kept)
        kept.append(t)
    # index renumbering for errors: an error naming a MacroSep would be a violation
    a = [(t.type, t.chan, t.byte, t.char, t.line, t.payload) for t in kept]
    if a != sig_tokens(nosep):
        b = sig_tokens(nosep)
        k = next((i for i, (x, y) in enumerate(zip(a, b)) if x != y), min(len(a), len(b)))
        out.append(f"tokens differ at {k} after erasing MacroSep")
    ea = []
    for e in sep.errs:
        last = e.last
        if last is not None:
            if last not in renum:
                # names a MacroSep: map to previous kept token
                out.append("error names a MacroSep token")
                last = None
            else:
                last = renum[last]
        ea.append((e.kind, e.byte, e.char, e.line, e.col, last))
    if ea != sig_errors(nosep):
        out.append("errors differ")
    if nosep.lit != sep.lit or nosep.lines != sep.lines:
        out.append("literal buffer / lines differ")
    # position rules
    N = tables.tt_name
    stat_lo, stat_hi = tables.T("KwmAbort"), tables.T("KwmRun")
    for i, t in enumerate(sep.toks):
        if t.type != MS:
            continue
        nxt = sep.toks[i + 1] if i + 1 < len(sep.toks) else None
        if t.chan != 0 or nxt is None or nxt.byte != t.byte:
            out.append(f"MacroSep {i} not zero-width on default channel")
        if nxt is None or not (stat_lo <= nxt.type <= stat_hi or N.get(nxt.type) == "MacroLabel"):
            out.append(f"MacroSep {i} not directly before a macro statement keyword or label")
        prev = next((p for p in reversed(sep.toks[:i]) if p.chan == 0), None)
        if prev is None or N.get(prev.type) in ("SEMI", "MacroLabel", "KwmThen", "KwmElse", "MacroSep"):
            out.append(f"MacroSep {i} after {N.get(prev.type) if prev else None}")
    return out


def same_dump(a, b, ignore_iters=False):
    ta, tb = a.text, b.text
    if ignore_iters:
        ta = [x for x in ta if not x.startswith("OUT")] + [a.outcome or ""]
        tb = [x for x in tb if not x.startswith("OUT")] + [b.outcome or ""]
    return ta == tb


# ------------------------------------------------------------------ C15


def closed_prefix(cx, config=True):
    """DESIGN §6.4; config=False leaves out the lexer's own end configuration (for generated programs,
    which are statement-complete by construction) and keeps the textual part: no unterminated construct,
    last token a consumed ';' or a closed statement-level comment"""
    c = cx.c
    if c.outcome != "ok" or not c.end:
        return False
    e = c.end
    if config and (e["modes"] != "[Default]" or e["mnl"] != 0 or e["ps"] != "0" or e["cp"] != 0):
        return False
    N = cx.t.tt_name
    for er in c.errs:
        if (N and cx.t.ek_name.get(er.kind, "")).startswith("Unterminated"):
            return False
    ts = c.toks
    if len(ts) < 2:
        return False
    i = len(ts) - 2
    last = ts[i]
    if cx.tok_end(i) != cx.n:
        return False
    name = N.get(last.type)
    text = cx.text(i)
    if name == "SEMI":
        return text != ""
    if name == "PredictedCommentStat":
        return text.endswith(";")
    if name == "MacroComment":
        return _mc_ends(text)
    return False


def glue_check(ca, cb, cab, tables):
    """lex(A++B) == glue(lex A, lex B)"""
    out = []
    if cab.outcome != "ok" or cb.outcome != "ok":
        return [f"outcome A+B={cab.outcome} B={cb.outcome}"]
    nb = len(ca.raw)
    nc = len(ca.src)
    nl = len(ca.lines) - 1
    nt = len(ca.toks) - 1
    nlit = len(ca.lit)
    bomb = 3 if cb.src.startswith("﻿") else 0
    if bomb:
        return []  # B starting with a BOM is not a continuation in the sense of the property
    want = [(t.type, t.chan, t.byte, t.char, t.line, t.payload) for t in ca.toks[:-1]]
    for t in cb.toks:
        p = t.payload
        if p and p[0] == "S":
            p = ("S", p[1] + nlit, p[2] + nlit)
        want.append((t.type, t.chan, t.byte + nb, t.char + nc, t.line + nl, p))
    got = sig_tokens(cab)
    if want != got:
        k = next((i for i, (x, y) in enumerate(zip(want, got)) if x != y), min(len(want), len(got)))
        out.append(f"tokens differ at {k}: want {want[k] if k < len(want) else None} got {got[k] if k < len(got) else None}")
    if ca.lit + cb.lit != cab.lit:
        out.append("literal buffer differs")
    wl = list(ca.lines) + [(b + nb, c + nc) for b, c in cb.lines[1:]]
    if wl != cab.lines:
        out.append("line table differs")
    last_line_start_char = ca.lines[-1][1]
    we = sig_errors(ca)
    for e in cb.errs:
        col = e.col + (nc - last_line_start_char) if e.line == 1 else e.col
        last = (e.last + nt) if e.last is not None else (nt - 1 if nt > 0 else None)
        we.append((e.kind, e.byte + nb, e.char + nc, e.line + nl, col, last))
    if we != sig_errors(cab):
        out.append(f"errors differ: want {we[:4]} got {sig_errors(cab)[:4]}")
    return out


# ------------------------------------------------------------------ C12 / C13 / C14 (grammar programs)


def c12(cx):
    out = []
    c = cx.c
    for e in c.errs:
        out.append(f"error {cx.t.ek_name.get(e.kind)} at {e.byte} in a well-formed program")
        break
    if c.end and (c.end["modes"] != "[Default]" or c.end["mnl"] != 0 or c.end["cp"] != 0 or c.end["ps"] not in ("0", "1")):
        out.append(f"residual state at end of program: {c.end}")
    return out


def c13(cx, ann):
    """ann: [(byte offset, byte length, tag)]"""
    out = []
    c = cx.c
    N = cx.t.tt_name
    by_start = {}
    for i, t in enumerate(c.toks):
        if cx.tok_end(i) > t.byte:
            by_start.setdefault(t.byte, []).append(i)
    DELIMS = {"COMMA", "ASSIGN", "SEMI", "LPAREN", "RPAREN"}
    for off, ln, tag in ann:
        idxs = by_start.get(off, [])
        if tag[0] == "D":
            ok = any(N.get(c.toks[i].type) == tag[1] and cx.tok_end(i) - off == ln for i in idxs)
            if not ok:
                got = [(N.get(c.toks[i].type), cx.text(i)[:12]) for i in idxs]
                out.append(f"delimiter {tag[1]} at {off} is not a token (found {got})")
        elif tag[0] == "I":
            if not any(N.get(c.toks[i].type) == "IntegerLiteral" and cx.tok_end(i) - off == ln for i in idxs):
                out.append(f"integer operand at {off} is not an IntegerLiteral token")
        elif tag[0] == "N":
            if any(N.get(c.toks[i].type) in DELIMS and c.toks[i].chan == 0 for i in idxs):
                out.append(f"nested/quoted character at {off} became a delimiter token")
        elif tag[0] == "G":
            # every byte of the gap lies in a hidden WS token or a comment-channel CStyleComment token
            import bisect
            starts = [t.byte for t in c.toks]
            pos = off
            end = off + ln
            okg = True
            while pos < end:
                k = bisect.bisect_right(starts, pos) - 1
                # skip zero-width tokens at the same offset
                while k + 1 < len(c.toks) and cx.tok_end(k) <= pos:
                    k += 1
                t = c.toks[k]
                nm = N.get(t.type)
                if not ((nm == "WS" and t.chan == 1) or (nm == "CStyleComment" and t.chan == 2)) or cx.tok_end(k) <= pos:
                    okg = False
                    break
                pos = cx.tok_end(k)
            if not okg:
                out.append(f"gap at {off}..{end} is not covered by hidden whitespace/comment tokens")
        if len(out) >= 3:
            break
    return out


def c14(cx, off, toktype, errkind, min_off=0):
    """off None: the error may sit anywhere at or after min_off, but must coincide with its recovery token"""
    out = []
    c = cx.c
    T = cx.t
    ek = T.ek.get(errkind)
    tt = T.T(toktype)
    cands = [e.byte for e in c.errs if e.kind == ek and (e.byte == off if off is not None else e.byte >= min_off)]
    if not cands:
        got = [(T.ek_name.get(e.kind), e.byte) for e in c.errs][:4]
        out.append(f"no {errkind} at {off if off is not None else '>=' + str(min_off)} (errors: {got})")
        return out
    if not any(t.type == tt and t.byte in cands and cx.tok_end(i) == t.byte and i + 1 < len(c.toks) for i, t in enumerate(c.toks)):
        out.append(f"no zero-width {toktype} recovery token at {cands[:3]}")
    return out
