"""Sampler for the construct grammar of DESIGN.md §6.3 with delimiter annotations (C12, C13, C14).

A rendered program is a list of pieces (text, tag).  Tags:
  None                      plain text
  ("D", type[, err])        delimiter/operator occurrence that must be a token of `type` starting here;
                            with `err`: mandatory delimiter whose deletion must give error `err` here (C14)
  ("N",)                    character(s) that must NOT start a delimiter token (nested/quoted , = ; ( ))
  ("G",)                    insignificant gap: must be covered exactly by hidden WS / comment-channel tokens
  ("I",)                    standalone integer operand in an expression: IntegerLiteral token
"""
import re

KW_ONEARG = "index kindex length klength qlowcase qklowcase upcase kupcase qupcase qkupcase sysmexecname sysprod quote nrquote bquote nrbquote superq unquote symexist symglobl symlocal sysget sysmacexec sysmacexist".split()
KW_MANY = "datatyp lowcase klowcase cmpres qcmpres kcmpres qkcmpres left qleft kleft qkleft trim qtrim ktrim qktrim".split()
KW_NAMED = "compstor validchs verify kverify".split()
OPS = [("+", "PLUS"), ("-", "MINUS"), ("*", "STAR"), ("**", "STAR2"), ("/", "FSLASH"), ("<", "LT"), ("<=", "LE"), (">", "GT"), (">=", "GE"),
       ("=", "ASSIGN"), ("^=", "NE"), ("~=", "NE"), ("#", "HASH"), ("|", "PIPE"),
       (" eq ", "KwEQ"), (" ne ", "KwNE"), (" lt ", "KwLT"), (" le ", "KwLE"), (" gt ", "KwGT"), (" ge ", "KwGE"), (" and ", "KwAND"), (" or ", "KwOR"), (" in ", "KwIN")]


class G:
    def __init__(self, rng, maxd=3):
        self.r = rng
        self.maxd = maxd
        self.used = {}

    def pick(self, *xs):
        return self.r.choice(list(xs))

    def chance(self, a, b):
        return self.r.chance(a, b)

    def case(self, w):
        return "".join(c.upper() if self.r.chance(3, 10) else c for c in w)

    def T(self, s):
        return [(s, None)]

    def gap(self, nonempty=False):
        k = self.pick(1, 1, 2) if nonempty else self.pick(0, 0, 1, 1, 2)
        parts = [self.pick(" ", "  ", "\n", " ", "\t", self.ws_run(), "/* c */", "/*x;,=)(*/") for _ in range(k)]
        if nonempty and not any(p.strip() == "" for p in parts):
            parts.insert(0, " ")
        s = "".join(parts)
        return [(s, ("G",))] if s else []

    def name(self):
        return self.pick("a", "b1", "_x", "var", "abc_d", "n")

    def uname(self):
        return self.pick("m", "mymac", "util_x", "m2", "zz")

    def word(self):
        return self.pick("x", "abc", "v1", "a.b", "1", "42", "x-y", "k:", "$c", "a+b", "q!")

    def mvar(self):
        return self.T(self.pick("&a", "&a.", "&&a&b", "&&pre&i..s", "&a&b", "&&&x"))

    def sq(self):
        return [(self.pick("'s'", "'it''s'", "''", "'a;b,c)('", "'x'n", "'01jan2020'd", "'4142'x", "'0'b", "'12:00't", "'a'dt"), ("Q",))]

    def dq(self, d):
        parts = [('"', None)]
        for _ in range(self.r.randint(0, 3)):
            c = self.r.below(10)
            if c < 4 or d <= 0:
                parts += self.T(self.pick("text", "a b", " ", '""', "x;y", "(", ",", "'"))
            elif c < 6:
                parts += self.mvar()
            elif c < 8:
                parts += self.call(d - 1)
            else:
                parts += self.builtin(d - 1)
        parts += [('"' + self.pick("", "", "", "n", "d"), ("Q",))]
        return parts

    def strtext(self, d):
        parts = []
        for _ in range(self.r.randint(0, 4)):
            x = self.pick("a", " ", ",", ";", "=", "%%", "%'", '%"', "%(", "%)", "x y", "+", "/", "-")
            parts.append((x, ("N",) if x in (",", ";", "=") else None))
        if d > 0 and self.chance(3, 10):
            parts += [("(", ("N",))] + self.strtext(d - 1) + [(")", ("N",))]
        return parts

    def strcall(self, d):
        return self.T("%" + self.case(self.pick("str", "nrstr"))) + self.gap() + [("(", None)] + self.strtext(d) + [(")", None)]

    def value(self, d, allow_empty=True):
        parts = []
        for _ in range(self.r.randint(0 if allow_empty else 1, 3)):
            c = self.r.below(100)
            if c < 35 or d <= 0:
                parts += self.T(self.word())
            elif c < 45:
                parts += self.T(" ")
            elif c < 55:
                parts += [("(", ("N",))] + self.balanced(d - 1) + [(")", ("N",))]
            elif c < 62:
                parts += self.sq()
            elif c < 70:
                parts += self.dq(d - 1)
            elif c < 80:
                parts += self.mvar()
            elif c < 87:
                parts += self.call(d - 1)
            elif c < 94:
                parts += self.builtin(d - 1)
            else:
                parts += self.strcall(d - 1)
        return parts

    def balanced(self, d):
        parts = []
        for _ in range(self.r.randint(1, 3)):
            c = self.r.below(5)
            if c == 0:
                parts += self.value(d)
            else:
                x = self.pick(",", ";", "=", " ")
                parts.append((x, ("N",) if x != " " else None))
        return parts

    def argname(self):
        """the name of a named argument: mostly a plain name, sometimes composed of text, macro
        variable references and a macro call without parentheses (`pre&i`, `%r`, `a&b.%r`)"""
        if self.chance(7, 10):
            return self.T(self.name())
        parts = self.T(self.name()) if self.chance(5, 10) else []
        k = self.pick("mvar", "call", "both")
        if k in ("mvar", "both"):
            parts += self.mvar()
        if k in ("call", "both"):
            parts += self.T("%" + self.uname()) + [("", ("NOPAREN",))]
        return parts

    def arg(self, d):
        parts = self.gap()
        if self.chance(4, 10):
            parts += self.argname() + self.gap() + [("=", ("D", "ASSIGN"))] + self.gap()
        return parts + self.value(d)

    def call(self, d):
        parts = self.T("%" + self.uname())
        if self.chance(7, 10):
            g = self.pick("", "", " ", "/*c*/")
            if g:
                parts += [(g, ("G",))]
            parts += [("(", ("D", "LPAREN"))]
            n = self.r.randint(1, 3)
            for i in range(n):
                if i:
                    parts += [(",", ("D", "COMMA"))]
                parts += self.arg(d)
            parts += [(")", ("D", "RPAREN"))]
        else:
            parts += [("", ("NOPAREN",))]
        return parts

    def operand(self, d):
        c = self.r.below(100)
        if c < 30 or d <= 0:
            x = self.pick("1", "42", "0", "7", "x", "abc", "v1", "zz9")
            return [(x, ("I",) if x.isdigit() else None)]
        if c < 45:
            return self.mvar()
        if c < 55:
            return self.call(d - 1)
        if c < 70:
            return self.builtin(d - 1)
        if c < 78:
            return self.sq()
        if c < 85:
            return self.dq(d - 1)
        return [("(", ("D", "LPAREN"))] + self.gap() + self.evalexpr(d - 1) + self.gap_ws() + [(")", ("D", "RPAREN"))]

    def ws_run(self):
        """a run of 1-3 whitespace characters: blanks, tabs, line feeds and CR LF in any order"""
        return "".join(self.pick(" ", " ", "\t", "\n", "\n", "\r\n") for _ in range(self.pick(1, 1, 2, 3)))

    def gap_ws(self):
        s_ = self.pick("", "", " ", self.ws_run(), self.ws_run())
        return [(s_, ("G",))] if s_ else []

    def gap_ws1(self):
        return [(self.pick(" ", self.ws_run(), self.ws_run()), ("G",))]

    def evalexpr(self, d):
        parts = self.operand(d)
        gap = self.gap_ws
        for _ in range(self.r.randint(0, 2)):
            o, t = self.r.choice(OPS)
            core = o.strip()
            pre, post = (o[: len(o) - len(o.lstrip())], o[len(o.rstrip()):])
            parts += gap()
            if pre:
                parts += [(pre, ("G",))]
            parts += [(self.case(core) if core.isalpha() else core, ("D", t))]
            if post:
                parts += [(post, ("G",))]
            parts += gap() + self.operand(d)
        return parts

    def nameexpr(self, d):
        c = self.r.below(10)
        if c < 6 or d <= 0:
            return self.T(self.name())
        if c < 8:
            return self.T(self.name()) + self.mvar()
        return self.mvar()

    def builtin(self, d):
        c = self.r.randint(0, 8)
        kw = lambda w: self.T("%" + self.case(w))
        LP = lambda: [("(", ("D", "LPAREN", "MissingExpectedLParen"))]
        RP = lambda: [(")", ("D", "RPAREN"))]
        if c == 0:
            return kw("eval") + self.gap() + LP() + self.gap() + self.evalexpr(d) + RP()
        if c == 1:
            p = kw("sysevalf") + self.gap() + LP() + self.gap() + self.evalexpr(d)
            if self.chance(4, 10):
                p += [(",", ("D", "COMMA"))] + self.gap() + self.T(self.pick("boolean", "ceil", "floor", "integer"))
            return p + RP()
        if c == 2:
            third = self.chance(5, 10)
            p = kw(self.pick("scan", "qscan", "kscan", "qkscan")) + self.gap() + LP() + self.gap() + self.value(d, False)
            p += [(",", ("D", "COMMA") if third else ("D", "COMMA", "MissingExpectedComma"))] + self.gap() + self.evalexpr(d)
            if third:
                p += [(",", ("D", "COMMA"))] + self.gap() + self.value(d)
            return p + RP()
        if c == 3:
            third = self.chance(5, 10)
            p = kw(self.pick("substr", "qsubstr", "ksubstr", "qksubstr")) + self.gap() + LP() + self.gap() + self.value(d, False)
            p += [(",", ("D", "COMMA") if third else ("D", "COMMA", "MissingExpectedComma"))] + self.gap() + self.evalexpr(d)
            if third:
                p += [(",", ("D", "COMMA"))] + self.gap() + self.evalexpr(d)
            return p + RP()
        if c == 4:
            return kw(self.r.choice(KW_ONEARG)) + self.gap() + LP() + self.gap() + self.balanced(d) + RP()
        if c == 5:
            p = kw(self.r.choice(KW_MANY)) + self.gap() + LP()
            for i in range(self.r.randint(1, 3)):
                if i:
                    p += [(",", ("D", "COMMA"))]
                p += self.gap() + self.value(d)
            return p + RP()
        if c == 6:
            p = kw(self.r.choice(KW_NAMED)) + self.gap() + LP()
            for i in range(self.r.randint(1, 3)):
                if i:
                    p += [(",", ("D", "COMMA"))]
                p += self.arg(d)
            return p + RP()
        if c == 7:
            p = kw(self.pick("sysfunc", "qsysfunc")) + self.gap() + LP() + self.gap() + self.T(self.pick("cats", "substr", "putn", "today")) + self.gap() + LP() + self.gap()
            for i in range(self.r.randint(1, 3)):
                if i:
                    p += [(",", ("D", "COMMA"))] + self.gap()
                p += self.evalexpr(d)
            p += RP() + self.gap()
            if self.chance(4, 10):
                p += [(",", ("D", "COMMA"))] + self.gap() + self.T(self.pick("best.", "date9.", "8.2"))
            return p + RP()
        return self.T("%sysmexecdepth") + [("", ("NOPAREN",))]

    def text(self, d):
        parts = []
        for _ in range(self.r.randint(0, 4)):
            c = self.r.below(10)
            if c < 4 or d <= 0:
                parts += self.T(self.pick("abc", "1", " ", "a b", "x=y", "(p)", ",", "/", "-", "+", "."))
            elif c < 5:
                parts += self.mvar()
            elif c < 6:
                parts += self.sq()
            elif c < 7:
                parts += self.dq(d - 1)
            elif c < 8:
                parts += self.call(d - 1)
            elif c < 9:
                parts += self.builtin(d - 1)
            else:
                parts += self.strcall(d - 1)
        return parts

    def otok(self, d):
        c = self.r.below(100)
        if c < 30 or d <= 0:
            return self.T(self.pick("x", "data", "set", "abc", "_n_", "run", "proc", "sql", "ыы", "é1"))
        if c < 40:
            return self.T(self.pick("1", "2.5", "1e3", "0fx", ".5", "12"))
        if c < 50:
            return self.sq()
        if c < 58:
            return self.dq(d - 1)
        if c < 70:
            return self.T(self.pick("=", "+", "-", "(", ")", ",", "<=", "||", "**", "/", ".", "$f1.", "@", "{", "}", "[", "]", "<>", "^=", "!", "?", "#", ":"))
        if c < 80:
            return self.mvar()
        if c < 90:
            return self.call(d - 1)
        return self.builtin(d - 1)

    SEMI = lambda self, err=None: [(";", ("D", "SEMI") + ((err,) if err else ()))]

    def openstmt(self, d, unterminated=False):
        first = self.otok(d)
        while first and first[0][0].startswith("*"):
            first = self.otok(d)
        parts = first
        # a statement is "pending" for the lexer only after a non-macro token: until then '*' starts a comment
        plain_seen = not first[0][0].startswith(("%", "&"))
        for _ in range(self.r.randint(0, 4)):
            nxt = self.otok(d)
            while nxt and nxt[0][0].startswith("*") and not plain_seen:
                nxt = self.otok(d)
            if not nxt[0][0].startswith(("%", "&")):
                plain_seen = True
            parts += self.gap(True) + nxt
        if unterminated:
            return parts
        return parts + self.gap() + self.SEMI()

    def cmt(self):
        return self.T(self.pick("/* c ; */", "* stat comment " + self.pick("", "'q'", "(,)") + ";", "%* macro " + self.pick("", "'a;b'", '"x;y"') + " comment;"))

    def data(self):
        four = self.chance(3, 10)
        return self.T(self.case(self.pick("datalines", "cards", "lines")) + ("4" if four else "") + self.pick("", " ", "\n") + ";" +
                      self.pick("\n1 2\n3 4\n", "\n", "\nabc, %x &y\n", "") + (";;;;" if four else ";"))

    def body(self, d):
        c = self.r.below(100)
        if c < 35 and d > 0:
            return self.do(d - 1)
        if c < 60:
            return self.mstmt(d - 1, nodo=True)
        if c < 85:
            return self.openstmt(d - 1)
        return self.call(d - 1) + self.gap() + self.SEMI()

    def do(self, d):
        c = self.r.randint(0, 2)
        inner = []
        if d > 0:
            for _ in range(self.r.randint(0, 2)):
                inner += self.gap() + self.item(d - 1)
        end = self.gap() + self.T("%" + self.case("end")) + self.gap() + self.SEMI("MissingExpectedSemiOrEOF")
        if c == 0:
            return self.T("%" + self.case("do")) + self.gap() + self.SEMI() + inner + end
        if c == 1:
            p = self.T("%do") + self.gap(True) + self.nameexpr(d) + self.gap() + [("=", ("D", "ASSIGN", "MissingExpectedAssign"))] + self.gap() + self.evalexpr(d)
            p += self.gap_ws1() + self.T("%" + self.case("to")) + self.gap(True) + self.evalexpr(d)
            if self.chance(4, 10):
                p += self.gap_ws1() + self.T("%by") + self.gap(True) + self.evalexpr(d)
            return p + self.gap_ws() + self.SEMI() + inner + end
        p = self.T("%do") + self.gap(True) + self.T("%" + self.case(self.pick("while", "until"))) + self.gap()
        p += [("(", ("D", "LPAREN", "MissingExpectedLParen"))] + self.gap() + self.evalexpr(d) + [(")", ("D", "RPAREN"))] + self.gap() + self.SEMI("MissingExpectedSemiOrEOF")
        return p + inner + end

    def mstmt(self, d, nodo=False):
        if self.chance(1, 12):
            # a statement label (the target of %goto): %name, optional blank, ':', then a statement
            return self.T("%" + self.uname()) + self.T(self.pick("", "", " ")) + self.T(":") + self.gap() + self.body(d)
        c = self.r.randint(0, 8 if not nodo else 6)
        if c == 0:
            return self.T("%" + self.case("let")) + self.gap(True) + self.nameexpr(d) + self.gap() + [("=", ("D", "ASSIGN", "MissingExpectedAssign"))] + self.gap() + self.text(d) + self.SEMI()
        if c == 1:
            return self.T("%" + self.case("put")) + self.gap(True) + self.text(d) + self.SEMI()
        if c == 2:
            return self.T("%" + self.case("goto")) + self.gap(True) + self.nameexpr(d) + self.gap() + self.SEMI()
        if c == 3:
            p = self.T("%" + self.case(self.pick("local", "global")))
            for _ in range(self.r.randint(1, 3)):
                p += self.gap(True) + self.nameexpr(d)
            return p + self.gap() + self.SEMI()
        if c == 4:
            return self.T("%" + self.pick("local", "global")) + self.gap() + [("/", ("D", "FSLASH"))] + self.gap() + self.T("readonly") + self.gap(True) + self.T(self.name()) + self.gap() + [("=", ("D", "ASSIGN", "MissingExpectedAssign"))] + self.gap() + self.text(d) + self.SEMI()
        if c == 5:
            p = self.T("%" + self.case("if")) + self.gap(True) + self.evalexpr(d) + self.gap_ws1() + self.T("%" + self.case("then")) + self.gap(True) + self.body(d)
            if self.chance(5, 10):
                p += self.gap() + self.T("%" + self.case("else")) + self.gap(True) + self.body(d)
            return p
        if c == 6:
            return self.T("%" + self.case("copy")) + self.gap(True) + self.T(self.uname()) + self.gap() + [("/", ("D", "FSLASH", "MissingExpectedFSlash"))] + self.gap() + self.T(self.pick("source", "lib=work source", "out='f' source")) + self.gap() + self.SEMI()
        if c == 7:
            return self.do(d)
        return self.T("%return") + self.gap() + self.SEMI("MissingExpectedSemiOrEOF")

    def mdef(self, d):
        p = self.T("%" + self.case("macro")) + self.gap(True) + self.T(self.uname())
        if self.chance(6, 10):
            p += self.gap() + [("(", ("D", "LPAREN"))] + self.gap()
            n = self.r.randint(0, 3)
            had_default = False
            for i in range(n):
                if i:
                    p += ([] if had_default else self.gap()) + [(",", ("D", "COMMA"))] + self.gap()
                p += self.T(self.name())
                had_default = False
                if self.chance(5, 10):
                    p += self.gap() + [("=", ("D", "ASSIGN"))] + self.gap() + self.value(d)
                    had_default = True
            p += ([] if had_default else self.gap()) + [(")", ("D", "RPAREN"))]
        if self.chance(2, 10):
            p += self.gap() + [("/", ("D", "FSLASH"))] + self.gap() + self.T(self.pick("store", "minoperator", 'des="x"', "store source"))
        p += self.gap() + self.SEMI()
        for _ in range(self.r.randint(0, 3)):
            p += self.gap() + self.item(d - 1)
        if self.chance(3, 10):
            # a body that ends in the middle of an open-code statement (a list of names, an expression):
            # the text the macro generates continues in the caller's statement
            p += self.gap() + self.openstmt(0, unterminated=True) + self.gap(True)
        p += self.gap() + self.T("%" + self.case("mend"))
        if self.chance(4, 10):
            p += self.gap(True) + self.T(self.uname())
        return p + self.gap() + self.SEMI()

    def item(self, d):
        c = self.r.below(100)
        if d <= 0 or c < 30:
            return self.openstmt(d)
        if c < 40:
            return self.cmt()
        if c < 50:
            return self.data()
        if c < 75:
            return self.mstmt(d)
        if c < 85:
            return self.mdef(d)
        return self.call(d - 1) + self.gap() + self.SEMI()

    def program(self):
        parts = []
        for _ in range(self.r.randint(1, 4)):
            parts += self.T(self.pick("", " ", "\n")) + self.item(self.maxd)
        return fix(parts)


def fix(parts):
    """enforce the no-fusion side conditions of DESIGN 6.3 by inserting separators"""
    out = []
    n = len(parts)
    for i, (t, tag) in enumerate(parts):
        nxt = "".join(x for x, _ in parts[i + 1:i + 4])
        if tag == ("Q",):
            out.append((t, None))
            if nxt[:1] and (re.match(r"[A-Za-z0-9_]", nxt[:1]) or nxt[:1] in "'\""):
                out.append((" ", None))
            continue
        if tag == ("NOPAREN",):
            m = re.match(r"(\s|/\*.*?\*/)*", nxt, re.S)
            after = nxt[m.end():m.end() + 1]
            if after in ("(", ":") and after:
                out.append((" .", None))
            elif re.match(r"[A-Za-z0-9_]", nxt[:1] or " "):
                out.append((" ", None))
            continue
        out.append((t, tag))
    # a '*' starting a statement would be a comment: the sampler avoids it by construction of openstmt (first token never '*')
    return [(t, tag) for t, tag in out if t != "" or tag]


def render(parts):
    """-> (text, annotations [(byte_offset, length_bytes, tag)])"""
    text = []
    ann = []
    pos = 0
    for t, tag in parts:
        b = len(t.encode("utf-8"))
        if tag and tag[0] in ("D", "N", "G", "I") and t:
            ann.append((pos, b, tag))
        text.append(t)
        pos += b
    return "".join(text), ann


def trailing_gap_start(s):
    """start index of the maximal run of whitespace and /*...*/ comments at the end of s"""
    k = len(s)
    while True:
        if k > 0 and s[k - 1].isspace():
            k -= 1
            continue
        if k >= 4 and s[k - 2:k] == "*/":
            j = s.rfind("/*", 0, k - 2)
            if j >= 0 and "*/" not in s[j + 2:k - 2]:
                k = j
                continue
        return k


def deletions(parts):
    """all single deletions of a mandatory delimiter (DESIGN 6.3, C14):
    -> [(text, expected offset or None, token type, error kind, offset of the deletion point)]
    Instances in which the deletion makes neighbouring lexemes fuse, or leaves the same
    delimiter character as the next significant character, are not instances of the property.
    Besides the plain deletion, the delimiter is also replaced, at the position where it is expected, by a
    non-ASCII letter whose code point ends in the delimiter's ASCII code (U+04xx, U+4Exx): what follows the
    gap is then a character that is not the delimiter but shares its low byte."""
    out = []
    CH = {"ASSIGN": "=", "LPAREN": "(", "COMMA": ",", "FSLASH": "/", "SEMI": ";"}
    GAP = r"(\s|/\*.*?\*/)*"
    for i, (t, tag) in enumerate(parts):
        if not (tag and tag[0] == "D" and len(tag) > 2):
            continue
        before = "".join(x for x, _ in parts[:i])
        after = "".join(x for x, _ in parts[i + 1:])
        m = re.match(GAP, after, re.S)
        d = CH[tag[1]]
        subs = [""]
        if (len(before) + i) % 3 == 0:
            subs += [chr(0x0400 + ord(d)), chr(0x4E00 + ord(d))]
        for sub in subs:
            nxt = sub + after[m.end():]
            if nxt[:1] == d:
                continue
            if tag[1] == "SEMI" and nxt == "":
                continue   # end-of-input semicolon: virtual without error, excluded by the property
            k = trailing_gap_start(before)
            lastc = before[:k][-1:]
            between = before[k:] + after[: m.end()]
            ws_between = bool(re.search(r"\s", re.sub(r"/\*.*?\*/", "", between, flags=re.S)))
            if not ws_between and re.match(r"[\w.&%]", lastc or " ") and re.match(r"[\w.&%'\"]", nxt[:1] or " "):
                continue   # lexical fusion (comments alone do not separate name parts)
            if tag[1] == "FSLASH" and nxt[:1] == "*":
                continue
            off = len(before.encode("utf-8")) + len(after[: m.end()].encode("utf-8"))
            if tag[1] == "COMMA":
                off = None  # the value argument extends to the next top-level delimiter: position not fixed by the grammar
            out.append((before + after[: m.end()] + nxt, off, tag[1], tag[2], len(before.encode("utf-8"))))
    return out


def eof_open_parens():
    """C14, last clause: a ')' still open at end of input.  Heads that open a parenthesis of a macro
    construct x tails that leave the lexer in every speculative or plain state the argument scanners have
    (after a name part, after a macro call without arguments and its trailing gap, after a macro variable,
    inside a nested call).  -> deletion-style items (text, offset, token type, error kind, min offset):
    the missing-')' error and its zero-width token are expected at the end of the input."""
    heads = ["%upcase(", "%UPCASE (", "%qupcase(", "%eval(", "%sysevalf(", "%str(", "%nrstr(", "%bquote(", "%superq(",
             "%m(", "%mymac(", "%m(a,", "%m(k=", "%m(a, k=", "%do %while(", "%do %until (", "%if %eval(", "%let x=%upcase(",
             "%put %lowcase(", "%upcase(%m(", "%m(%upcase(", "%sysfunc(f(", "%qsysfunc(cats(a,", "%length(", "%index(a,", "%substr(a,1,",
             "%scan(a,", "%qscan(a,1,", "%unquote(", "%cmpres(", "%left(", "%trim(", "%verify(a,", "%kverify(a,", "%nrbquote(", "%quote("]
    tails = ["a", "abc ", "%zz", "%zz ", "%zz /*c*/ ", "%zz\n", "&x", "&x.", "1", "1 + 2", "a b", "a%zz", "a &x", "'s'", "\"d\"", "a/*c*/",
             "", " ", "ыы", "%zz%zz", "a=%zz", "%zz a"]
    out = []
    for h in heads:
        for t in tails:
            s = h + t
            out.append((s, len(s.encode("utf-8")), "RPAREN", "MissingExpectedRParen", len(s.encode("utf-8"))))
    return out
