#!/usr/bin/env python3
"""debug helper: compile a .v file truncated after each sentence of the lemma that starts at the given marker,
closing the proof with admits, to find the sentence that hangs or fails. usage: coqbisect.py file.v 'Lemma name' [timeout]"""
import sys, subprocess, time, re
path, marker = sys.argv[1], sys.argv[2]
tmo = int(sys.argv[3]) if len(sys.argv) > 3 else 30
s = open(path).read()
a = s.index(marker)
pstart = s.index("Proof.", a) + len("Proof.")
pend = s.index("Qed.", pstart)
head, body = s[:pstart], s[pstart:pend]
# split body into sentences at '. ' or '.\n' outside of brackets
sent, depth, cur = [], 0, ""
i = 0
while i < len(body):
    ch = body[i]
    cur += ch
    if ch in "([{":
        depth += 1 if ch != "{" else 0
    elif ch in ")]}":
        depth -= 1 if ch != "}" else 0
    if ch == "." and depth == 0 and (i + 1 == len(body) or body[i + 1] in " \n") and not cur.rstrip().endswith(".."):
        sent.append(cur)
        cur = ""
    i += 1
opened_sections = [l.split()[1].rstrip('.') for l in head.split("\n") if l.startswith("Section ")]
closed_sections = [l.split()[1].rstrip('.') for l in head.split("\n") if l.startswith("End ")]
tail = "".join(f"\nEnd {x}.\n" for x in reversed([x for x in opened_sections if x not in closed_sections]))
for k in range(1, len(sent) + 1):
    part = "".join(sent[:k])
    braces = part.count("{") - part.count("}")
    # bullets are dropped by closing with admit inside focus
    txt = head + part + "\n all: try admit. " + " } all: try admit. " * max(0, braces) + "\nAdmitted.\n" + tail
    open("/tmp/bisect.v", "w").write(txt)
    t = time.time()
    try:
        r = subprocess.run(["coqc", "-Q", "/verif/coq", "SasLexer", "/tmp/bisect.v"], capture_output=True, text=True, timeout=tmo)
        msg = "ok" if r.returncode == 0 else r.stderr.strip().split("\n")[-3:]
        print(k, round(time.time() - t, 1), repr(sent[k - 1].strip()[:70]), msg)
        if r.returncode != 0 and "bullet" not in str(msg) and "focus" not in str(msg).lower():
            pass
    except subprocess.TimeoutExpired:
        print(k, "TIMEOUT", repr(sent[k - 1].strip()[:100]))
        break
