"""Coq side of a check: regenerate Gen/*.v, build the property's cone with a full .vo build,
hygiene greps, Print Assumptions against the allow-list, extraction + OCaml build of the model."""
import os, re, glob, shutil, hashlib, subprocess
from common import VERIF, BUILD, NCPU, run, log, Lock
import translate

COQ = os.path.join(VERIF, "coq")
EXTRACT_DIR = os.path.join(BUILD, "extract")
OCAML_SRC = os.path.join(VERIF, "ocaml")

# axioms of the standard library that theorems may depend on (DESIGN.md section 9), by property file
AXIOM_ALLOW = {
    "default": set(),
    "C08": {"ClassicalDedekindReals.sig_forall_dec", "ClassicalDedekindReals.sig_not_dec",
            "FunctionalExtensionality.functional_extensionality_dep", "Classical_Prop.classic"},
}
FORBIDDEN = re.compile(r"\b(Admitted|admit|Axiom|Parameter|Conjecture|Unset Guard|bypass_check|type-in-type|Admit Obligations)\b")


class CoqFailure(Exception):
    def __init__(self, what, detail):
        super().__init__(what)
        self.what = what
        self.detail = detail


def regenerate():
    """translator run; returns meta or raises CoqFailure"""
    try:
        import impl
        from common import run as prun
        tables_text = prun([impl.build("debug"), "tables"], inp=b"", timeout=600).stdout.decode()
        return translate.main(os.path.join(COQ, "Gen"), tables_text)
    except translate.TranslateError as e:
        raise CoqFailure("translator", f"translator could not read the source: {e}")


def project_files():
    out = []
    for ln in open(os.path.join(COQ, "_CoqProject")):
        ln = ln.strip()
        if ln.endswith(".v"):
            out.append(ln)
    return out


def ensure_makefile():
    mk = os.path.join(COQ, "Makefile")
    proj = os.path.join(COQ, "_CoqProject")
    if not os.path.exists(mk) or os.path.getmtime(mk) < os.path.getmtime(proj):
        run(["coq_makefile", "-f", "_CoqProject", "-o", "Makefile"], cwd=COQ, check=True)


def hygiene():
    """no Admitted/admit/Axiom/... anywhere in the development (comments stripped)"""
    bad = []
    for f in project_files():
        p = os.path.join(COQ, f)
        if not os.path.exists(p):
            continue
        txt = open(p, encoding="utf-8").read()
        txt = re.sub(r"\(\*.*?\*\)", " ", txt, flags=re.S)
        for m in FORBIDDEN.finditer(txt):
            bad.append(f"{f}: {m.group(0)}")
        if re.search(r"^\s*(Variable|Hypothesis|Variables|Hypotheses)\b", txt, re.M):
            # allowed only inside sections: check crude nesting
            depth = 0
            for ln in txt.split("\n"):
                if re.match(r"\s*Section\b", ln):
                    depth += 1
                elif re.match(r"\s*End\b", ln) and depth > 0:
                    depth -= 1
                elif re.match(r"\s*(Variable|Hypothesis|Variables|Hypotheses)\b", ln) and depth == 0:
                    bad.append(f"{f}: {ln.strip()[:60]} outside a section")
    return bad


def make(targets, timeout=1500):
    """full .vo build of the given targets (e.g. Properties/C05.vo). Returns (ok, output)"""
    ensure_makefile()
    with Lock("coq-make"):
        p = run(["make", f"-j{NCPU}"] + targets, cwd=COQ, timeout=timeout)
    out = p.stdout.decode(errors="replace") + p.stderr.decode(errors="replace")
    return p.returncode == 0, out


def theorems_of(vfile):
    txt = open(os.path.join(COQ, vfile), encoding="utf-8").read()
    txt = re.sub(r"\(\*.*?\*\)", " ", txt, flags=re.S)
    return re.findall(r"^\s*(?:Theorem|Corollary)\s+(\w+)", txt, re.M)


def lemma_count(vfiles):
    n = 0
    for f in vfiles:
        p = os.path.join(COQ, f)
        if os.path.exists(p):
            txt = re.sub(r"\(\*.*?\*\)", " ", open(p, encoding="utf-8").read(), flags=re.S)
            n += len(re.findall(r"^\s*(?:Theorem|Lemma|Corollary|Example|Fact|Remark|Proposition)\s+\w+", txt, re.M))
    return n


def deps_of(vfile):
    """transitive .v dependencies inside the project, via coqdep"""
    p = run(["coqdep", "-Q", ".", "SasLexer", "-sort", vfile], cwd=COQ)
    files = [x for x in p.stdout.decode().split() if x.endswith(".v")]
    return [os.path.normpath(f).lstrip("./") for f in files]


def assumptions(prop_module, names, allow):
    """Print Assumptions for every theorem of the property file; returns (report dict, violations)"""
    os.makedirs(os.path.join(BUILD, "assume"), exist_ok=True)
    tmp = os.path.join(BUILD, "assume", f"assume_{prop_module}.v")
    with open(tmp, "w") as f:
        f.write(f"From SasLexer Require Import Properties.{prop_module}.\n")
        for n in names:
            f.write(f'Goal True. idtac "@@@ {n}". exact I. Qed.\nPrint Assumptions {n}.\n')
    p = run(["coqc", "-Q", COQ, "SasLexer", "-w", "-all", tmp], cwd=os.path.join(BUILD, "assume"), timeout=900)
    out = p.stdout.decode(errors="replace") + p.stderr.decode(errors="replace")
    if p.returncode != 0:
        raise CoqFailure("assumptions", out[-3000:])
    rep = {}
    cur = None
    for ln in out.split("\n"):
        if ln.startswith("@@@ "):
            cur = ln[4:].strip()
            rep[cur] = []
        elif cur and ln.strip() and not ln.startswith("Closed under") and not ln.startswith("Axioms:"):
            # an axiom entry starts at column 0 with its qualified name; its type may continue on indented lines
            m = re.match(r"([A-Za-z_][\w.']*)\s*(:|$)", ln)
            if m:
                rep[cur].append(m.group(1))
    bad = []
    for n, axs in rep.items():
        for a in axs:
            if a not in allow and not a.startswith("PrimInt63") and not a.startswith("PrimFloat"):
                bad.append(f"{n} depends on {a}")
    return rep, bad


def build_property(prop_module, extra_targets=()):
    """Regenerate, build Properties/<prop_module>.vo, hygiene, assumptions.
    Returns dict(obligations, discharged, theorems, axioms, files). Raises CoqFailure."""
    meta = regenerate()
    vfile = f"Properties/{prop_module}.v"
    bad = hygiene()
    if bad:
        raise CoqFailure("hygiene", "; ".join(bad[:10]))
    ok, out = make([vfile[:-2] + ".vo"] + list(extra_targets))
    if not ok:
        m = re.search(r'File "([^"]+)", line (\d+)[^\n]*\n(Error:.*?)(?:\n\n|make)', out, re.S)
        where = f"{m.group(1)}:{m.group(2)} {m.group(3)[:400]}" if m else out[-1500:]
        raise CoqFailure("proof", where)
    names = theorems_of(vfile)
    prop_id = prop_module[:3]
    allow = AXIOM_ALLOW.get(prop_id, AXIOM_ALLOW["default"])
    rep, badax = assumptions(prop_module, names, allow)
    if badax:
        raise CoqFailure("assumptions", "; ".join(badax[:10]))
    files = deps_of(vfile)
    nl = lemma_count(files)
    return {"obligations": nl, "discharged": nl, "theorems": names, "axioms": rep, "files": files, "gen": meta}


def build_model():
    """extract the model (Extract/Extract.v writes coq/model.ml) and build modelrun; returns its path"""
    os.makedirs(EXTRACT_DIR, exist_ok=True)
    ml = os.path.join(COQ, "model.ml")
    if not os.path.exists(ml):
        for ext in (".vo", ".vos", ".vok", ".glob"):
            try:
                os.remove(os.path.join(COQ, "Extract", "Extract" + ext))
            except OSError:
                pass
    ok, out = make(["Extract/Extract.vo"])
    if not ok or not os.path.exists(ml):
        raise CoqFailure("model", out[-2000:])
    with Lock("extract"):
        h = hashlib.sha256()
        for p_ in [ml, os.path.join(COQ, "model.mli")] + [os.path.join(OCAML_SRC, x) for x in sorted(os.listdir(OCAML_SRC))]:
            h.update(open(p_, "rb").read())
        digest = h.hexdigest()
        stamp = os.path.join(EXTRACT_DIR, "stamp")
        exe = os.path.join(EXTRACT_DIR, "modelrun")
        if os.path.exists(exe) and os.path.exists(stamp) and open(stamp).read() == digest:
            return exe
        shutil.copy(ml, EXTRACT_DIR)
        shutil.copy(os.path.join(COQ, "model.mli"), EXTRACT_DIR)
        for f in os.listdir(OCAML_SRC):
            shutil.copy(os.path.join(OCAML_SRC, f), EXTRACT_DIR)
        cmd = ["ocamlfind", "ocamlopt", "-w", "-a", "-O2", "-unboxed-types", "model.mli", "model.ml", "driver_common.ml", "driver.ml", "-o", "modelrun"]
        cmd.remove("-unboxed-types")
        p = run(cmd, cwd=EXTRACT_DIR, timeout=900)
        if p.returncode != 0:
            raise CoqFailure("ocaml", (p.stdout + p.stderr).decode(errors="replace")[-2000:])
        open(stamp, "w").write(digest)
        return exe


def vm_eval(defs_imports, exprs, timeout=600):
    """evaluate closed terms inside Coq with vm_compute (cases.v); returns list of output strings"""
    os.makedirs(os.path.join(BUILD, "cases"), exist_ok=True)
    tmp = os.path.join(BUILD, "cases", f"cases_{os.getpid()}.v")
    with open(tmp, "w") as f:
        f.write(defs_imports + "\n")
        for i, e in enumerate(exprs):
            f.write(f'Goal True. idtac "@@@ {i}". exact I. Qed.\nEval vm_compute in ({e}).\n')
    p = run(["coqc", "-Q", COQ, "SasLexer", "-w", "-all", tmp], cwd=os.path.join(BUILD, "cases"), timeout=timeout)
    out = p.stdout.decode(errors="replace")
    if p.returncode != 0:
        raise CoqFailure("vm_compute", (out + p.stderr.decode(errors="replace"))[-2000:])
    res = {}
    cur = None
    for ln in out.split("\n"):
        if ln.startswith("@@@ "):
            cur = int(ln[4:])
            res[cur] = ""
        elif cur is not None:
            res[cur] += ln + "\n"
    for ext in (".v", ".vo", ".glob", ".vok", ".vos"):
        try:
            os.remove(tmp[:-2] + ext)
        except OSError:
            pass
    return [res.get(i, "") for i in range(len(exprs))]
