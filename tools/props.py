"""Per-property checks. Each function takes a framework.Run and fills it."""
import os, re, time, json, itertools, collections
from common import Rng, log, hexline, parse_dump, BUILD, VERIF
import gen, impl, oracles as O, coqbuild
from coqbuild import CoqFailure
from impl import BuildError


def tier_n(run, quick, thorough):
    """input counts per tier; the thorough tier is capped at 4x the quick tier: every case of every build variant is kept
    in memory for the cross-variant oracles, and 25x quick (the original plan) needed more than 45 GB"""
    return min(thorough, 4 * quick) if run.tier == "thorough" else quick


# ------------------------------------------------------------------ shared pieces


def coq_part(run, module, extra_targets=()):
    """build the property's theories; on failure record a (not yet input-backed) violation and
    return None so that the caller goes on to search for a failing input"""
    try:
        info = coqbuild.build_property(module, extra_targets)
    except CoqFailure as e:
        run.cov["broken_obligation"] = {"what": e.what, "detail": e.detail[:1500]}
        run.cov.setdefault("obligations", 1)
        run.cov.setdefault("discharged", 0)
        run.pending_break = (f"coq-{e.what}", f"{module}: {e.detail[:600]}")
        return None
    run.cov["obligations"] = run.cov.get("obligations", 0) + info["obligations"]
    run.cov["discharged"] = run.cov.get("discharged", 0) + info["discharged"]
    run.cov["checker_cmd"] = f"make -C coq Properties/{module}.vo (coqc 8.16.1, full .vo build) + Print Assumptions"
    run.cov.setdefault("theorems", []).extend(info["theorems"])
    run.cov.setdefault("axioms", {}).update({k: v for k, v in info["axioms"].items()})
    run.cov["generated_from_source"] = info["gen"]
    run.cov["theory_files"] = info["files"]
    return info


def settle_break(run):
    """a broken proof/translator/correspondence with no concrete failing input found"""
    pb = getattr(run, "pending_break", None)
    if pb and not any(v["found_input"] for v in run.violations):
        run.violation(pb[0], pb[1], src=None, found_input=False)


def base_inputs(run, rng, n_frag, n_uni=0, n_open=0, corpus=True, tests=200):
    ins = []
    tags = []
    if corpus:
        c = gen.regression_corpus()
        ins += c
        tags += ["corpus"] * len(c)
        if tests:
            t = gen.test_strings()
            r2 = rng.fork("tests")
            if len(t) > tests:
                t = [t[r2.below(len(t))] for _ in range(tests)]
            ins += t
            tags += ["tests"] * len(t)
    f = gen.fragments(rng.fork("frag"), n_frag, 8)
    ins += f
    tags += ["fragments"] * len(f)
    mv = gen.mvar_stream(rng.fork("mvar"), max(200, n_frag // 20))
    ins += mv
    tags += ["mvar"] * len(mv)
    lf = gen.lf_stream(rng.fork("lfall"), 120)
    ins += lf
    tags += ["lf"] * len(lf)
    if n_uni:
        u = gen.unicode_stress(rng.fork("uni"), n_uni)
        ins += u
        tags += ["unicode"] * len(u)
    if n_open:
        o = gen.open_code(rng.fork("open"), n_open)
        ins += o
        tags += ["open"] * len(o)
    return ins, tags


def bigram_keys(case):
    ks = set()
    prev = -1
    for t in case.toks:
        ks.add((prev, t.type))
        prev = t.type
    for e in case.errs:
        ks.add(("E", e.kind))
    return ks


def run_oracle(run, cases, tables, oracle, stream, variant, need_ok=True):
    """apply a single-case oracle; failing inputs are shrunk and reported"""
    nfail = 0
    tagcount = collections.Counter()
    for c in cases:
        if c.src is None:
            continue
        tagcount[c.outcome] += 1
        if need_ok and c.outcome != "ok":
            # a panic/hang is C01's business; other properties only speak about returned results
            continue
        cx = O.Ctx(c, tables)
        try:
            fails = oracle(cx)
        except Exception as ex:  # an oracle crash must not pass silently
            fails = [f"oracle exception {ex!r}"]
        run._distinct.update(bigram_keys(c))
        if fails:
            nfail += 1
            if nfail <= 5:
                def still(s, _o=oracle, _v=variant):
                    cs = impl.run_lex(_v, [s], jobs=1)
                    if not cs or cs[0].src is None or (need_ok and cs[0].outcome != "ok"):
                        return False
                    try:
                        return bool(_o(O.Ctx(cs[0], tables)))
                    except Exception:
                        return False
                small = shrink_input(c.src, still)
                cs = impl.run_lex(variant, [small], jobs=1)
                msg = fails[0]
                try:
                    m2 = oracle(O.Ctx(cs[0], tables))
                    if m2:
                        msg = m2[0]
                except Exception:
                    pass
                run.violation("oracle", f"[{variant}/{stream}] {msg}", src=small, extra={"original": c.src[:500], "dump": cs[0].text[:80]})
    run.count(stream + ":" + variant, len(cases))
    run.cov["streams"][stream + ":" + variant]["outcomes"] = dict(tagcount)
    return nfail


def shrink_input(src, still):
    from framework import shrink
    try:
        if len(src) > 400:
            return src
        return shrink(src, still, budget=120)
    except Exception:
        return src


# ------------------------------------------------------------------ C05


def random_buffers(rng, n, wf_ratio=3):
    """hand-built buffers: well-formed ones and ill-formed mutations. Text blocks for `buf` mode."""
    blocks = []
    for k in range(n):
        nl = 1 + rng.below(5)
        bom = rng.choice([0, 0, 3])
        lines = [(bom, 1 if bom else 0)]
        for _ in range(nl - 1):
            b, c = lines[-1]
            d = rng.below(6)
            extra = rng.below(d + 1) if d else 0   # multi-byte chars: bytes >= chars
            lines.append((b + d + extra + (0 if rng.chance(1, 6) else 1), c + d + (0 if rng.chance(1, 6) else 1)))
        nt = 1 + rng.below(7)
        toks = []
        pos = lines[0]
        for i in range(nt):
            # choose a line whose start <= pos
            cands = [j for j, (b, c) in enumerate(lines) if b <= pos[0] and c <= pos[1]]
            li = rng.choice(cands) if cands else 0
            if rng.chance(2, 3) and cands:
                li = max(cands)
            ty = rng.choice([188, 3, 4, 75, 54, 36, 0, 7, 8])
            ch = rng.choice([0, 0, 1, 2])
            pl = rng.choice(["N", "N", "I7", "I18446744073709551615", "F3ff0000000000000", "S0,2"])
            toks.append([ch, ty, pos[0], pos[1], li, pl])
            step = rng.choice([0, 0, 1, 2, 5])
            # sometimes jump exactly to a line start
            nxt = [(b, c) for (b, c) in lines if b >= pos[0] and c >= pos[1]]
            if nxt and rng.chance(1, 3):
                pos = rng.choice(nxt)
            else:
                pos = (pos[0] + step + (rng.below(step + 1) if step else 0), pos[1] + step)
        kind = "wf"
        if not rng.chance(wf_ratio, wf_ratio + 1):
            kind = rng.choice(["unsorted", "line_oob", "before_line", "no_tokens", "no_lines", "line_unsorted", "start_lt_line"])
            if kind == "unsorted" and len(toks) > 1:
                i = 1 + rng.below(len(toks) - 1)
                toks[i][2] = max(0, toks[i - 1][2] - 1 - rng.below(3))
            elif kind == "line_oob":
                rng.choice(toks)[4] = len(lines) + rng.below(3)
            elif kind == "before_line":
                t = rng.choice(toks)
                t[4] = len(lines) - 1
                t[2] = max(0, lines[-1][0] - 1 - rng.below(2))
            elif kind == "no_tokens":
                toks = []
            elif kind == "no_lines":
                lines = []
            elif kind == "line_unsorted" and len(lines) > 1:
                lines[-1] = (max(0, lines[0][0] - 1), lines[-1][1])
            elif kind == "start_lt_line":
                t = rng.choice(toks)
                t[3] = max(0, lines[min(t[4], len(lines) - 1)][1] - 1) if lines else 0
        txt = [f"BUF {k} {kind}"]
        txt += [f"T {' '.join(str(x) for x in t)}" for t in toks]
        txt += [f"L {b} {c}" for b, c in lines]
        txt += ["LIT 6162", "ENDBUF"]
        blocks.append("\n".join(txt))
    return blocks


def split_buf_output(text):
    """BUF-delimited blocks of a buf-mode dump -> {header: [lines]}"""
    out = collections.OrderedDict()
    cur = None
    for ln in text.split("\n"):
        if ln.startswith("BUF "):
            cur = ln
            out[cur] = []
        elif cur is not None and ln:
            out[cur].append(ln)
    return out


def model_buf(exe, text, profile):
    from common import run as prun
    p = prun([exe, "buf", profile], inp=text.encode(), timeout=900)
    return p.stdout.decode()


def check_C05(run):
    rng = Rng(run.seed).fork("C05")
    info = coq_part(run, "C05")
    try:
        exe = coqbuild.build_model()
    except CoqFailure as e:
        exe = None
        run.pending_break = ("model-build", e.detail[:600])
    T = impl.tables("debug")
    # (1) hand-built buffers through the hook constructor: model vs implementation, both profiles
    nb = tier_n(run, 1500, 30000)
    blocks = random_buffers(rng.fork("buf"), nb)
    text = "\n".join(blocks) + "\n"
    wf_count = 0
    for variant, profile in (("debug", "debug"), ("release", "release")):
        iout = split_buf_output(impl.run_buf(variant, text))
        run.count(f"handbuilt-buffers:{variant}", len(iout))
        if exe:
            mout = split_buf_output(model_buf(exe, text, profile))
            mism = 0
            for hdr, ilines in iout.items():
                mlines = mout.get(hdr)
                if mlines is None:
                    mism += 1
                    continue
                wf = [x for x in mlines if x.startswith("WF ")]
                mcore = [x for x in mlines if not x.startswith("WF ")]
                is_wf = wf == ["WF 1"]
                if is_wf and variant == "debug":
                    wf_count += 1
                run._distinct.add(("buf", hdr.split()[-1], is_wf, tuple(x.split()[0] + ("p" if "panic" in x else "") for x in ilines[:3])))
                if mcore != ilines:
                    mism += 1
                    if mism <= 3:
                        d = next((a, b) for a, b in itertools.zip_longest(mcore, ilines) if a != b)
                        # is the property itself violated on this buffer? (bulk rows vs accessor rows of the implementation)
                        rows = [x.split()[1:] for x in ilines if x.startswith("R ")]
                        accs = [x.split()[1:] for x in ilines if x.startswith("A ")]
                        bad = is_wf and any(r != [a[0], a[1], a[2], a[5], a[6], a[7], a[8], a[9], a[10], a[11]] for r, a in zip(rows, accs) if len(a) > 11)
                        blk = next(b for b in blocks if b.startswith(hdr))
                        run.violation("correspondence", f"[{variant}] model and implementation differ on a hand-built buffer: model {d[0]!r} impl {d[1]!r}",
                                      src=blk if bad else None, extra={"buffer": blk}, found_input=bad)
                if is_wf:
                    # theorem premise holds: the implementation must agree with itself
                    rows = [x.split()[1:] for x in ilines if x.startswith("R ")]
                    accs = [x.split()[1:] for x in ilines if x.startswith("A ")]
                    if "R panic" in ilines or len(rows) != len(accs) or any(
                            len(a) < 12 or r != [a[0], a[1], a[2], a[5], a[6], a[7], a[8], a[9], a[10], a[11]] for r, a in zip(rows, accs)):
                        blk = next(b for b in blocks if b.startswith(hdr))
                        run.violation("oracle", f"[{variant}] bulk view differs from accessors on a well-formed hand-built buffer", src=blk)
    run.cov["wellformed_handbuilt"] = wf_count
    # (2) buffers produced by the lexer
    n = tier_n(run, 2500, 60000)
    ins, tags = base_inputs(run, rng, n, n // 3, n // 4)
    for variant in ("debug", "release"):
        cases = impl.run_lex(variant, ins)
        run_oracle(run, cases, T, O.c05, "lexed", variant)
        if exe and variant == "debug":
            # premise of the theorem on the implementation's output + model rows on the same buffer
            blocks2 = []
            okc = [c for c in cases if c.outcome == "ok" and c.src is not None]
            for c in okc:
                b = [f"BUF {c.idx} lexed"]
                for x in c.text:
                    if x.startswith("T "):
                        q = x.split(" ")
                        b.append(f"T {q[3]} {q[2]} {q[4]} {q[5]} {q[6]} {q[7]}")
                    elif x.startswith("L ") or x.startswith("LIT"):
                        b.append(x)
                b.append("ENDBUF")
                blocks2.append("\n".join(b))
            mout = split_buf_output(model_buf(exe, "\n".join(blocks2) + "\n", "debug"))
            notwf = 0
            for c in okc:
                ml = mout.get(f"BUF {c.idx} lexed", [])
                if "WF 1" not in ml:
                    notwf += 1
                    if notwf <= 3:
                        run.violation("premise", "buffer returned by the lexer is not well-formed (WFbuf premise of C05_views_agree fails)", src=c.src)
                mrows = [x for x in ml if x.startswith("R ")]
                irows = ["R " + " ".join(r) for r in c.rows]
                if mrows != irows and notwf == 0:
                    run.violation("correspondence", "model bulk view differs from the implementation's on a lexed buffer", src=c.src if O.c05(O.Ctx(c, T)) else None,
                                  found_input=bool(O.c05(O.Ctx(c, T))))
            run.cov["lexed_buffers_wf_checked"] = len(okc)
    run.sample({"buffer": blocks[0]})
    run.sample({"source": ins[len(ins) // 2]})
    run.cov["rule"] = ("hand-built buffers (random well-formed and 7 kinds of ill-formed) through the hook constructor, compared row by row with the "
                       "extracted Coq model in both profiles; plus buffers lexed from corpus/fragment/unicode/open-code inputs; distinct = "
                       "(kind, wf, outcome shape) for buffers and token-type bigrams for lexed inputs")
    run.assumptions += ["values stay below 2^32-1 (u32 additions in buffer.rs are not modelled as overflowing)",
                        "WFbuf of lexer output is tested here (wfbuf_b on every returned buffer); its proof is part of the lexer invariants (C02/C04)"]
    settle_break(run)


# ------------------------------------------------------------------ whole-lexer properties


def correspond(run, exe, ins, variants, T, oracle=None, stream="lexer"):
    """model vs implementation, byte for byte, per build variant. A difference is first examined
    with the property's oracle on that input; only if the oracle accepts it, it is kept as a
    broken correspondence (reported with no-failing-input-found unless another input fails)."""
    import corr
    results = {}
    for variant in variants:
        profile = "release" if variant.startswith("release") else "debug"
        sep = variant.endswith("-sep")
        icases = impl.run_lex(variant, ins, mode="lexa")
        results[variant] = icases
        if exe is None:
            continue
        mcases = corr.run_model(exe, ins, profile=profile, sep=sep, mode="lexa")
        view = corr.VIEWS.get(run.prop)
        diffs = corr.compare(mcases, icases, view, str(T.tt.get("EOF", 0)))
        run.cov.setdefault("correspondence", {})[variant] = {"inputs": len(ins), "differences": len(diffs),
                                                             "compared": "whole dump" if view is None else "the observables the property reads: " + ", ".join(f"{k}{v if v else ''}" for k, v in view.items() if k != "only_ok")}
        if view is not None:
            full = corr.compare(mcases, icases)
            run.cov["correspondence"][variant]["differences_outside_the_view"] = len(full) - len([d for d in diffs if d[0] in {f[0] for f in full}])
        run.cov["traces_validated_against_impl"] = run.cov.get("traces_validated_against_impl", 0) + len(ins) - len(diffs)
        run.cov["disagreements_checked"] = run.cov.get("disagreements_checked", 0) + len(diffs)
        flags = collections.Counter()
        for m in mcases:
            g = corr.ghost(m)
            for k in ("lines_ok", "err_ok", "wf"):
                if g and g.get(k) != "true":
                    flags[k] += 1
            if g and g.get("debt") != "false":
                flags["debt"] += 1
            if g:
                run.cov["max_rollbacks"] = max(run.cov.get("max_rollbacks", 0), int(g.get("rollbacks", 0)))
                run.cov["max_mode_stack"] = max(run.cov.get("max_mode_stack", 0), int(g.get("maxmodes", 0)))
        if flags:
            run.cov.setdefault("monitor_flags_false", {})[variant] = dict(flags)
        if diffs:
            shown = 0
            for idx, a, b in diffs:
                c = icases[idx]
                bad = []
                if oracle and c.src is not None and c.outcome == "ok":
                    try:
                        bad = oracle(O.Ctx(c, T))
                    except Exception as ex:
                        bad = [f"oracle exception {ex!r}"]
                if bad:
                    continue  # reported by run_oracle with the shrunk input
                shown += 1
                if shown <= 3:
                    run.cov.setdefault("correspondence_examples", []).append({"input": ins[idx][:200], "model": a, "impl": b})
            run.diff_inputs = getattr(run, "diff_inputs", []) + [ins[idx] for idx, _, _ in diffs]
            if not getattr(run, "pending_break", None):
                idx, a, b = min(diffs, key=lambda d: len(ins[d[0]]))
                run.pending_break = ("correspondence", f"[{variant}/{stream}] model and implementation differ on {len(diffs)} of {len(ins)} inputs; first: input {ins[idx][:120]!r}: model {a!r} vs impl {b!r}")
    return results


def monitor_violations(run, exe, ins, which, message):
    """ghost monitor flags of the model run (premises of the conditional generic theorems)"""
    import corr
    if exe is None:
        return
    mcases = corr.run_model(exe, ins, profile="debug", sep=False, mode="lex")
    n = 0
    for m in mcases:
        g = corr.ghost(m)
        if g and any(g.get(k) != v for k, v in which.items()):
            n += 1
            if n <= 2:
                run.pending_break = getattr(run, "pending_break", None) or ("premise", f"{message} on input {m.src[:120]!r}")
    run.cov["premise_checked_on"] = run.cov.get("premise_checked_on", 0) + len(mcases)
    run.cov["premise_failures"] = run.cov.get("premise_failures", 0) + n


def lexer_check(run, module, oracle, n_quick, n_thorough, variants=("debug", "release"), extra_inputs=None,
                need_ok=True, premise=None, rule=""):
    rng = Rng(run.seed).fork(run.prop)
    coq_part(run, module)
    try:
        exe = coqbuild.build_model()
    except CoqFailure as e:
        exe = None
        run.pending_break = ("model-build", e.detail[:600])
    T = impl.tables("debug")
    n = tier_n(run, n_quick, n_thorough)
    ins, tags = base_inputs(run, rng, n, n // 3, n // 4)
    ins += gen.context_exhaustive(2, rng.fork("ctx"))
    if run.tier == "thorough":
        ins += gen.context_exhaustive(3, rng.fork("ctx3"), limit=24 * n_quick)
    if run.tier != "thorough":
        ins += gen.context_exhaustive(3, rng.fork("ctx3"), limit=n)
        ins += gen.small_context_exhaustive(4, rng.fork("sctx4"), limit=8 * n)
        ins += gen.small_context_exhaustive(5, rng.fork("sctx5"), limit=4 * n)
    else:
        ins += gen.small_context_exhaustive(4, rng.fork("sctx4"), limit=32 * n_quick)
        ins += gen.small_context_exhaustive(5, rng.fork("sctx5"), limit=16 * n_quick)
    if extra_inputs:
        x = extra_inputs(rng, run)
        ins += x
    if run.tier == "thorough":
        ins += gen.exhaustive_small(gen.TRIGGER_ALPHABET, 3)
        for f in gen.sample_files():
            ins += gen.truncations(f, max(1, len(f) // 400))
    results = correspond(run, exe, ins, variants, T, oracle)
    for variant, cases in results.items():
        run_oracle(run, cases, T, oracle, "lexer", variant, need_ok=need_ok)
    # the correspondence broke: search around the disagreeing inputs for an input on which the property fails
    if getattr(run, "diff_inputs", None) and not any(v["found_input"] for v in run.violations):
        amp = gen.amplify(run.diff_inputs, rng.fork("amp"))
        run.cov["amplified_inputs"] = len(amp)
        for variant in variants:
            cases = impl.run_lex(variant, amp, mode="lexa")
            results[variant] = results[variant] + cases
            run_oracle(run, cases, T, oracle, "amplified", variant, need_ok=need_ok)
        ins += amp
    if premise:
        monitor_violations(run, exe, ins, premise[0], premise[1])
    run.sample({"source": ins[len(ins) // 3]})
    run.sample({"source": ins[-1][:200]})
    run.cov["rule"] = rule or ("regression corpus, sampled test-suite strings, fragment concatenations (1-8 of %d trigger fragments), unicode/line-break "
                               "stress, macro-free open code; every input lexed by the implementation (each listed build) and by the extracted Coq model "
                               "and compared byte for byte, then judged by the property's direct oracle; distinct = token-type bigrams and error kinds reached" % len(gen.FR))
    settle_break(run)
    return results


def check_C03(run):
    lexer_check(run, "C03", O.c03, 3000, 80000)
    run.assumptions += ["source length below 2^32 bytes (u32 offsets are modelled as unbounded N)",
                        "the theorem is about the Gallina model; handlers reach the state only through the modelled primitives"]


def check_C01(run):
    def extra(rng, run):
        out = []
        for f in gen.sample_files():
            out += gen.truncations(f, max(1, len(f) // (120 if run.tier == "quick" else 480)))
        for t in gen.test_strings(300 if run.tier == "quick" else None):
            if len(t) < 80:
                out += gen.truncations(t)
        return out

    res = lexer_check(run, "C01", O.c01, 4000, 100000, variants=("debug", "release", "debug-sep"), need_ok=False, extra_inputs=extra)
    # scaling families: work and output linear in the input length
    T = impl.tables("debug")
    fam = gen.FR[:: (6 if run.tier == "quick" else 1)]
    ks = (4, 7) if run.tier == "quick" else (4, 8, 11)
    ins = []
    for f in fam:
        for k in ks:
            ins.append(f * (2 ** k))
    cases = impl.run_lex("release", ins, mode="lex", timeout=1200)
    run.count("scaling:release", len(cases))
    by = {}
    for s_, c in zip(ins, cases):
        cx = O.Ctx(c, T) if c.src is not None else None
        if cx is None:
            continue
        f = O.c01(cx)
        if f:
            run.violation("oracle", f"[release/scaling] {f[0]}", src=s_ if len(s_) < 300 else None, extra={"fragment": s_[:40], "length": len(s_)}, found_input=True if len(s_) < 300 else False)
    run.assumptions += ["totality is tested, not proved: panic (catch_unwind), iteration budget 8n+64 (hook), internal errors, linear output, on all streams incl. every truncation of the sample programs and 2^k repetitions of every fragment",
                        "memory growth is not measured (the model bounds counts, not allocator behaviour)"]


def bom_lookalikes(rng, run):
    """sources whose first character is not the byte-order mark but could be mistaken for one: the first token has to
    start at offset 0 and cover that character (C02), and a mark in front of it stays transparent (C17)"""
    heads = ["\ufffe", "\ufffd", "\uffff", "\u200b", "\u2060", "\u00ef\u00bb\u00bf", "\ufffe\ufeff", "\ufeef", "\ufefe", "\ufff0", "\u180e", "\u00a0"]
    tails = ["", "data a; x = 1; run;", "%let a=1;", "\n", "x", ";", "/* c */", "'s'", "%m(1)", "datalines;\n1\n;", "\ufeff", "\"", "&a"]
    return [h + t for h in heads for t in tails]


def check_C02(run):
    lexer_check(run, "C02", O.c02, 3000, 80000, extra_inputs=bom_lookalikes, premise=({"wf": "true"}, "the buffer of the model run is not well-formed (premise of C02_accessors_succeed)"))
    run.assumptions += ["C02_sorted_* are conditional on the debug-profile run returning (C01); first-token-after-BOM and single-EOF are tested by the oracle on every input, not proved",
                        "source length below 2^32 bytes"]


def check_C19(run):
    """model part: C19 theorems; run-time part: all builds byte-identical, threads, repeated calls"""
    res = lexer_check(run, "C19", lambda cx: [], 3000, 60000, variants=("debug", "release", "debug-sep", "release-sep"), need_ok=False)
    # (1) debug vs release dumps identical (per feature setting)
    for a, b in (("debug", "release"), ("debug-sep", "release-sep")):
        n = 0
        for ca, cb in zip(res[a], res[b]):
            if not O.same_dump(ca, cb):
                n += 1
                if n <= 3:
                    run.violation("oracle", f"{a} and {b} builds return different results", src=ca.src, extra={"a": ca.text[:40], "b": cb.text[:40]})
        run.cov.setdefault("profile_pairs", {})[f"{a}/{b}"] = {"inputs": len(res[a]), "different": n}
    # (2) concurrency and call history: 16 threads, shuffled orders, vs sequential
    ins = [c.src for c in res["release"] if c.src is not None][: tier_n(run, 3000, 40000)]
    for variant in ("release", "debug"):
        out = impl.run_threads(variant, ins, 16)
        m = re.search(r"THREADS n=(\d+) cases=(\d+) mismatches=(\d+)", out)
        if not m:
            run.violation("harness", "threads run produced no summary", found_input=False)
            continue
        run.cov.setdefault("threads", {})[variant] = {"threads": int(m.group(1)), "cases": int(m.group(2)), "mismatches": int(m.group(3))}
        run.count(f"threads:{variant}", int(m.group(2)) * 17)
        for ln in out.split("\n"):
            if ln.startswith("MISMATCH"):
                hx = ln.split()[2]
                run.violation("oracle", f"[{variant}] result differs when lexed concurrently / after other inputs", src=bytes.fromhex(hx).decode("utf-8", "replace"))
    run.assumptions += ["thread scheduling, allocator, toolchain channel and optimisation level are outside the model: covered by run-time comparison only (partial)",
                        "Cursor::advance_by's two cfg!(debug_assertions) branches are modelled by one function (they differ only in prev_char bookkeeping)"]


def check_C04(run):
    lexer_check(run, "C04", O.c04, 3000, 80000,
                premise=({"lines_ok": "true", "debt": "false", "consumed": "true"},
                         "premise of C04_line_table fails in the model run (line protocol monitor / pending line feed / input not consumed)"),
                extra_inputs=lambda rng, run: gen.lf_stream(rng.fork("lf"), 300 if run.tier == "quick" else 3000) + [x for t in ("%macro m; * a\nb; %mend;", "%m(a\n=1)", "'a\nb'n", "%let a=%str(x\ny);", "data;\ndatalines;\n1\n;", "%put \"a\n&b\";")
                                               for x in gen.lf_everywhere(t)])
    run.assumptions += ["C04_line_table / C04_line_count are conditional on the line-protocol monitor of the model run (checked on every input); token and error line/column and end positions are tested by the oracle, not proved",
                        "end position of a token ending in a line feed follows the reading of DESIGN.md §7 C04 (pinned by the crate's tests/util.rs)"]


def check_C09(run):
    lexer_check(run, "C09", O.c09, 3000, 80000,
                extra_inputs=lambda rng, run: gen.speculative_error_stream(rng.fork("spec"), tier_n(run, 6000, 120000)),
                premise=({"err_ok": "true"}, "an error survived a rollback or a prepared error was emitted out of order in the model run (monitor g_err_ok)"))
    run.assumptions += ["C09_error_offsets is proved for every program; anchoring of last_token in the final stream and the missing-symbol/virtual-token pairing are tested by the oracle and monitored (g_err_ok), not proved"]


def check_C07(run):
    lexer_check(run, "C07", O.c07, 3000, 80000,
                extra_inputs=lambda rng, run: gen.escape_stream(rng.fork("esc"), tier_n(run, 6000, 200000)))
    run.assumptions += ["partition of the literal buffer and payload = unquoted text are tested by the oracle (independent unquoting) on every token; proved: the hex string decoder"]


def check_C10(run):
    lexer_check(run, "C10", O.c10, 3000, 80000,
                extra_inputs=lambda rng, run: [t for f in gen.sample_files()[:1] for t in gen.truncations(f, max(1, len(f) // 150))])
    run.assumptions += ["balance of string expressions, datalines triples and label colons is tested by the oracle on every input (all truncations of a sample program included); proved: the pre-loaded parenthesis/semicolon expectations of every built-in"]


def check_C06(run):
    rngk = Rng(run.seed)
    state = {}

    def oracle(cx):
        km = state.get("km")
        return O.c06(cx, km)

    # keyword map by execution, for every identifier-like token text that will be seen: collected lazily
    T = impl.tables("debug")
    # first pass needs the kwmap: build it from all ASCII words of the inputs after lexing; approximate by
    # asking the helper for every upper-cased identifier-like substring of the fragment tables
    words = set()
    for frag in gen.FR + gen.OPEN_ATOMS + gen.CTX_ATOMS + gen.CONTEXTS:
        for w in re.findall(r"[A-Za-z_][A-Za-z0-9_]*", frag):
            words.add(w.upper())
    import translate
    tt = translate.parse_token_type()
    for k, _ in tt["kws"] + tt["mkws"]:
        words.add(k)
    state["km"] = impl.kwmap("debug", words)

    class LazyMap(dict):
        def get(self, k, d=None):
            if k not in self:
                self.update(impl.kwmap("debug", [k]))
            return dict.get(self, k, d)
    state["km"] = LazyMap(state["km"])
    lexer_check(run, "C06", oracle, 3000, 80000,
                extra_inputs=lambda rng, run: [rng.choice(["", " ", "x=", "%"]) + v + rng.choice(["", " ", ";", "("])
                                               for k, _ in (tt["kws"] + tt["mkws"]) for v in gen.case_variants(rng, k, 1)])
    run.assumptions += ["per-type text shapes (DESIGN 6.1) are tested by the oracle on every token of every input; proved: the keyword/character tables they rest on",
                        "keyword spelling is judged against the keyword maps executed from the built crate"]


def case_pairs_check(run, results, ins, variants_of, T, variant="release"):
    """lex case variants of every input and compare with the base result"""
    n = 0
    base = results[variant]
    var_inputs = []
    owner = []
    for i, s_ in enumerate(ins):
        for v in variants_of(s_):
            if v != s_:
                var_inputs.append(v)
                owner.append(i)
    cases = impl.run_lex(variant, var_inputs, mode="lex")
    run.count(f"case-variants:{variant}", len(cases))
    for c, i in zip(cases, owner):
        fails = O.c16_pair(base[i], c)
        if fails:
            n += 1
            if n <= 3:
                def still(s2, _i=i):
                    vs = [x for x in variants_of(s2) if x != s2][:3]
                    cs = impl.run_lex(variant, [s2] + vs, jobs=1)
                    return any(O.c16_pair(cs[0], x) for x in cs[1:])
                small = shrink_input(ins[i], still)
                run.violation("oracle", f"[{variant}] case variant lexes differently: {fails[0]}", src=small, extra={"variant": c.src[:200], "original": ins[i][:200]})
    return n


def check_C16(run):
    rng = Rng(run.seed).fork("C16v")
    import translate
    tt = translate.parse_token_type()
    kwins = []
    for k, _ in tt["kws"]:
        kwins += [f"x {k.lower()} y;"]
    for k, _ in tt["mkws"]:
        kwins += [f"%{k.lower()} ", f"x=%{k.lower()}(a)"]
    for m in ["eq", "ne", "lt", "le", "gt", "ge", "and", "or", "not", "in"]:
        kwins += [f"%eval(a {m} b)", f"%if a {m} b %then", f"%eval(({m}))", f"%eval(1{m} 2)"]
    for suf in ["b", "d", "dt", "n", "t", "x"]:
        kwins += [f"'41'{suf} ", f"\"41\"{suf};", f"\"&a\"{suf}"]
    kwins += ["0ffx", "1e5", "1.5e-3", "%sysevalf(1e3)", "%eval(0ffx)", "datalines;\n;", "cards4;\n;;;;", "lines ;\n;", "a=0ABCDEFx;"]
    res = lexer_check(run, "C16", lambda cx: [], 2500, 60000, variants=("release",), extra_inputs=lambda r, ru: kwins, need_ok=False)
    T = impl.tables("debug")
    ins = [c.src for c in res["release"]]
    n1 = case_pairs_check(run, res, ins, lambda s_: gen.case_variants(rng, s_, 1 if run.tier == "quick" else 3), T)
    # all 2^n variants of every keyword / mnemonic / suffix template
    allv = []
    for t in kwins[: (400 if run.tier == "quick" else len(kwins))]:
        vs = gen.all_case_variants(t, limit=64 if run.tier == "quick" else 4096, rng=rng)
        allv.append((t.lower(), vs))
    flat = [v for _, vs in allv for v in vs]
    cases = impl.run_lex("release", flat, mode="lex")
    run.count("all-case-variants:release", len(cases))
    k = 0
    for _, vs in allv:
        b = cases[k]
        for j in range(1, len(vs)):
            f = O.c16_pair(b, cases[k + j])
            if f:
                run.violation("oracle", f"case variants of a keyword template lex differently: {f[0]}", src=vs[j], extra={"other": vs[0]})
                break
        k += len(vs)
    run.cov["case_variant_failures"] = n1
    run.assumptions += ["whole-lexer case independence is tested (random/extreme variants of every input, all or sampled 2^n variants of keyword templates); proved: the classification helpers"]


def grammar_programs(run, rng, n, maxd):
    import grammar
    progs = []
    for i in range(n):
        g = grammar.G(rng.fork(("g", i)), maxd=maxd)
        progs.append(g.program())
    return progs


def grammar_check(run, module, which):
    """C12 / C13 / C14: programs sampled from the construct grammar (DESIGN 6.3) with recorded
    delimiter positions; model vs implementation on every program (and every deletion), then the oracle"""
    import grammar, corr
    rng = Rng(run.seed).fork(run.prop)
    coq_part(run, module)
    try:
        exe = coqbuild.build_model()
    except CoqFailure as e:
        exe = None
        run.pending_break = ("model-build", e.detail[:600])
    T = impl.tables("debug")
    n = tier_n(run, 2500, 60000)
    progs = grammar_programs(run, rng, n, 3 if run.tier == "quick" else 4)
    if which == "C14":
        items = []
        for p in progs[: n // 2]:
            for d in grammar.deletions(p):
                items.append(d)
        items += grammar.eof_open_parens()
        ins = [d[0] for d in items]
    else:
        ren = [grammar.render(p) for p in progs]
        ins = [t for t, _ in ren]
    variants = ("debug", "release")
    results = correspond(run, exe, ins, variants, T, None, stream="grammar")
    nfail = 0
    for variant in variants:
        cases = results[variant]
        run.count(f"grammar:{variant}", len(cases))
        for k, c in enumerate(cases):
            if c.src is None:
                continue
            if c.outcome != "ok":
                if which == "C12":
                    run.violation("oracle", f"[{variant}] well-formed program does not lex: {c.outline[:120]}", src=c.src)
                continue
            cx = O.Ctx(c, T)
            run._distinct.update(bigram_keys(c))
            if which == "C12":
                f = O.c12(cx)
            elif which == "C13":
                f = O.c13(cx, ren[k][1])
            else:
                d = items[k]
                f = O.c14(cx, d[1], d[2], d[3], d[4])
            if f:
                nfail += 1
                if nfail <= 4:
                    extra = {"annotations": ren[k][1][:40]} if which == "C13" else ({"deleted": items[k][2:]} if which == "C14" else None)
                    run.violation("oracle", f"[{variant}/grammar] {f[0]}", src=c.src, extra=extra)
    run.sample({"program": ins[0][:300]})
    run.sample({"program": ins[len(ins) // 2][:300]})
    run.cov["rule"] = ("programs sampled from the construct grammar of DESIGN.md 6.3 (depth <= %d) with recorded delimiter/gap positions%s; each lexed by the implementation "
                       "(debug, release) and by the extracted model, compared byte for byte, then judged by the oracle; distinct = token-type bigrams" %
                       (3 if run.tier == "quick" else 4, " and every single deletion of a mandatory delimiter" if which == "C14" else ""))
    settle_break(run)


def check_C12(run):
    grammar_check(run, "C12", "C12")
    run.assumptions += ["proved: the production Program ::= ';'* (all lengths, release profile); the rest of the construct grammar is covered by sampling (programs must lex without error and end in the initial configuration)"]


def check_C13(run):
    grammar_check(run, "C13", "C13")
    run.assumptions += ["proved: the parenthesis-counter step lemmas of the argument-value scanner and the pre-loaded parentheses of built-ins; delimiter/operator/gap positions over whole programs are tested on sampled grammar programs",
                        "grammar side condition: in expressions, gaps next to an operand are whitespace only (a comment directly after an operand makes the lexer keep the operand as text: documented limitation of the crate, DESIGN 6.3)"]


def check_C14(run):
    grammar_check(run, "C14", "C14")
    run.assumptions += ["C14 over the whole grammar is tested (sampled programs x all single deletions); proved: pre-loaded expectations and the recovery step of an ExpectSymbol mode",
                        "deletions that fuse neighbouring lexemes or leave the same delimiter character next are not instances (DESIGN 6.3)"]


def check_C17(run):
    BOMC = "\ufeff"
    state = {}

    def extra(rng, run):
        # sources whose first character is not the mark but could be mistaken for one (the byte-swapped
        # mark, noncharacters and replacement character next to it, zero-width characters, the mark's
        # Latin-1 mojibake): C17 quantifies over every source that does not start with U+FEFF
        heads = ["\ufffe", "\ufffd", "\uffff", "\u200b", "\u2060", "\u00ef\u00bb\u00bf", "\ufffe\ufeff", "\ufeef", "\ufefe", "\ufff0", "\u180e", "\u00a0"]
        tails = ["", "data a; x = 1; run;", "%let a=1;", "\n", "x", ";", "/* c */", "'s'", "%m(1)", "datalines;\n1\n;", "\ufeff", "\"", "&a"]
        return [h + t for h in heads for t in tails]

    res = lexer_check(run, "C17", lambda cx: [], 2500, 60000, variants=("debug", "release"), need_ok=False, extra_inputs=extra,
                      premise=({"loopdet": "false"}, "the loop detector fired in the model run (premise of C17_bom_transparent)"))
    T = impl.tables("debug")
    base_cases = [c for c in res["release"] if c.src is not None and not c.src.startswith(BOMC)]
    plain = [c.src for c in base_cases]
    marked = [BOMC + s_ for s_ in plain]
    try:
        exe = coqbuild.build_model()
    except CoqFailure:
        exe = None
    mres = correspond(run, exe, marked, ("debug", "release"), T, None, stream="marked")
    for variant in ("release", "debug"):
        pl = {c.src: c for c in res[variant] if c.src is not None}
        n = 0
        for s_, cm in zip(plain, mres[variant]):
            cp = pl.get(s_)
            if cp is None or cp.outcome != "ok":
                continue
            f = O.c17_pair(cp, cm)
            if f:
                n += 1
                if n <= 3:
                    def still(s2, _v=variant):
                        if s2.startswith(BOMC):
                            return False
                        a, b = impl.run_lex(_v, [s2, BOMC + s2], mode="lexa", jobs=1)
                        return a.outcome == "ok" and bool(O.c17_pair(a, b))
                    run.violation("oracle", f"[{variant}] a leading byte-order mark changes the result: {f[0]}", src=shrink_input(s_, still))
        run.count(f"bom-pairs:{variant}", len(plain))
    settle_break(run)
    run.assumptions += ["C17_bom_transparent assumes the plain run returns within the iteration budget with the loop detector silent (C01)",
                        "the model keeps offsets relative to the text after the mark; agreement with the implementation's absolute arithmetic is what the marked-input correspondence stream checks"]


def check_C18(run):
    res = lexer_check(run, "C18", lambda cx: [], 3000, 80000, variants=("release", "release-sep", "debug-sep"), need_ok=False)
    T = impl.tables("debug")
    n = 0
    nsep = 0
    for a, b in zip(res["release"], res["release-sep"]):
        if a.src is None or a.outcome != "ok" or b.outcome != "ok":
            if a.outcome != b.outcome:
                run.violation("oracle", f"outcome differs between feature builds: {a.outcome} vs {b.outcome}", src=a.src)
            continue
        f = O.c18_pair(a, b, T)
        nsep += sum(1 for t in b.toks if t.type == T.T("MacroSep"))
        if f:
            n += 1
            if n <= 3:
                def still(s2):
                    x = impl.run_lex("release", [s2], jobs=1)[0]
                    y = impl.run_lex("release-sep", [s2], jobs=1)[0]
                    return x.outcome == "ok" and y.outcome == "ok" and bool(O.c18_pair(x, y, T))
                run.violation("oracle", f"macro_sep build differs from plain build by more than MacroSep tokens: {f[0]}", src=shrink_input(a.src, still))
    run.cov["macro_sep_tokens_seen"] = nsep
    run.assumptions += ["equality of the two feature builds up to MacroSep tokens is tested on every input (both builds of the implementation, both configurations of the model); proved: the guard predicate"]


def c11_inputs(run, rng):
    n = tier_n(run, 12000, 300000)
    ins = gen.open_code(rng.fork("open"), n, 10)
    ins += gen.lexeme_stream(rng.fork("lexemes"), 3 * n)
    ins += [s for s in gen.regression_corpus() + gen.test_strings() if gen.is_macro_free(s)]
    ins += [s for s in gen.unicode_stress(rng.fork("uni"), n // 3) if gen.is_macro_free(s)]
    A = gen.OPEN_ATOMS
    # every ordered pair of open-code atoms (symbol pairs, literal/suffix adjacency, keyword neighbourhoods)
    pairs = [a + b for a in A for b in A]
    ins += pairs
    # statement position of '*' and datalines: each atom after each statement context
    pre = ["", ";", "a ", "a;", "a; ", "/*c*/", "datalines;\n1\n;", "cards4;\nx\n;;;;", "x=1;\n", "'s'", "1 ", "$f1. ", "a /*c*/ ", ";/*c*/"]
    post = ["", ";", " c;", "\n1 2\n;", " x", "*", ";* c;"]
    ins += [p_ + a + q for p_ in pre for a in A for q in post]
    r3 = rng.fork("tri")
    k = tier_n(run, 20000, 600000)
    ins += [A[r3.below(len(A))] + A[r3.below(len(A))] + A[r3.below(len(A))] for _ in range(k)]
    if run.tier == "thorough":
        alpha = [" ", "\n", ";", "a", "x", "e", "1", ".", "'", "\"", "&", "%", "(", "/", "*", "d", "t", "-", "<", "=", "\u044b", "$", "0", "f"]
        ins += [s for s in gen.exhaustive_small(alpha, 4) if gen.is_macro_free(s)]
    seen = set()
    out = []
    for s in ins:
        if s not in seen:
            seen.add(s)
            out.append(s)
    return out


def check_C11(run):
    import reflex
    rng = Rng(run.seed).fork("C11")
    coq_part(run, "C11")
    try:
        exe = coqbuild.build_model()
    except CoqFailure as e:
        exe = None
        run.pending_break = ("model-build", e.detail[:600])
    T = impl.tables("debug")
    ins = c11_inputs(run, rng)
    if exe is None:
        settle_break(run)
        return
    refs = reflex.run(exe, ins)
    keep = [i for i, r in enumerate(refs) if r is not None]
    ins = [ins[i] for i in keep]
    refs = [refs[i] for i in keep]
    run.cov["macro_free_inputs"] = len(ins)
    shapes = collections.Counter()
    for r in refs:
        for t in r["toks"]:
            shapes[T.tt_name.get(int(t[0]), t[0]) if t and t[0].isdigit() else "?"] += 1
    run.cov["reference_token_types"] = dict(shapes.most_common())
    run.cov["reference_error_inputs"] = sum(1 for r in refs if r["errs"])
    # model = implementation (whole lexer, byte for byte), so the theorems about the model speak about this code
    sub = ins[:: max(1, len(ins) // tier_n(run, 20000, 200000))]
    correspond(run, exe, sub, ("debug", "release"), T, None, stream="macro-free")
    for variant in ("debug", "release"):
        cases = impl.run_lex(variant, ins, mode="lex")
        nbad = 0
        outcomes = collections.Counter()
        for c, r, s_ in zip(cases, refs, ins):
            outcomes[c.outcome] += 1
            run._distinct.update(bigram_keys(c))
            msg = reflex.diff(r, c, T)
            if msg:
                nbad += 1
                if nbad <= 4:
                    def still(x, _v=variant):
                        rr = reflex.run(exe, [x], jobs=1)
                        if not rr or rr[0] is None:
                            return False
                        cc = impl.run_lex(_v, [x], jobs=1, mode="lex")
                        return bool(cc) and reflex.diff(rr[0], cc[0], T) is not None
                    small = shrink_input(s_, still)
                    rr = reflex.run(exe, [small], jobs=1)
                    cc = impl.run_lex(variant, [small], jobs=1, mode="lex")
                    m2 = reflex.diff(rr[0], cc[0], T) if rr and rr[0] is not None and cc else None
                    run.violation("reference", f"[{variant}] macro-free input {small!r}: {m2 or msg}", src=small,
                                  extra={"original": s_[:500], "reference": rr[0] if rr else None})
        run.count("macro-free:" + variant, len(cases))
        run.cov["streams"]["macro-free:" + variant]["outcomes"] = dict(outcomes)
        run.cov["streams"]["macro-free:" + variant]["differences_from_reference"] = nbad
    run.sample({"source": ins[len(ins) // 2]})
    run.sample({"source": ins[-1][:200]})
    run.cov["rule"] = ("macro-free strings only (decided by the extracted Coq predicate macro_free): lexemes spelled at random from their grammars (names, formats, numbers, literals+suffixes, comments, datalines, symbols), random concatenations of %d open-code atoms, every ordered "
                       "atom pair, every atom in 14 statement-position contexts x 7 followers, sampled triples, Unicode stress, macro-free corpus/test strings; "
                       "each lexed by the implementation (debug, release) and read by the extracted reference lexer; (type, channel, byte, payload) of every "
                       "token, (kind, byte) of every error and the literal buffer compared" % len(gen.OPEN_ATOMS))
    run.assumptions += ["the reference lexer Spec/RefLex.v is the executable form of the open-code grammar (DESIGN 6.2); proved about it: maximal whitespace/ampersand runs, first-closer comment extent, statement-position rule for '*'",
                        "theorem C11_lexer_is_reference: the lexer model (release profile) yields exactly the reference reading on every macro-free text; the model is tied to the implementation (debug and release) by the byte-for-byte correspondence run on the same inputs, and the implementation is also compared with the reference directly"]
    settle_break(run)


def _compose_model(exe, pairs, profile):
    """extracted compose_check on (A, B) pairs -> list of 'holds' | 'fails' | 'notclosed'"""
    import subprocess, concurrent.futures as cf
    from common import NCPU
    lines = [(hexline(a) or "-") + " " + (hexline(b) or "-") for a, b in pairs]
    if not lines:
        return []
    k = max(1, min(NCPU, len(lines) // 100 + 1))
    size = (len(lines) + k - 1) // k
    chunks = [lines[i:i + size] for i in range(0, len(lines), size)]

    def go(ch):
        p_ = subprocess.run([exe, "compose", profile], input=("\n".join(ch) + "\n").encode(), capture_output=True, timeout=1800)
        out = [ln.split()[2] for ln in p_.stdout.decode().split("\n") if ln.startswith("CASE ")]
        return out + ["crash"] * (len(ch) - len(out))
    res = []
    with cf.ThreadPoolExecutor(max_workers=k) as ex:
        for r in ex.map(go, chunks):
            res.extend(r)
    return res


def check_C15(run):
    import grammar
    rng = Rng(run.seed).fork("C15")
    coq_part(run, "C15")
    try:
        exe = coqbuild.build_model()
    except CoqFailure as e:
        exe = None
        run.pending_break = ("model-build", e.detail[:600])
    T = impl.tables("debug")
    n = tier_n(run, 2500, 50000)
    # --- candidate prefixes: grammar programs, arbitrary strings (most useful when they end in ';'), corpus
    cands = [grammar.render(p)[0] for p in grammar_programs(run, rng, n // 2, 3)]
    gram = set(cands)   # statement-complete programs of the construct grammar: closed prefixes by construction
    raw = gen.fragments(rng.fork("fa"), n, 6) + gen.open_code(rng.fork("oa"), n // 2, 6) + gen.regression_corpus() + gen.unicode_stress(rng.fork("ua"), n // 6)
    r2 = rng.fork("semi")
    for s_ in raw:
        cands.append(s_)
        cands.append(s_ + r2.choice([";", ";", " ;", ";\n", "*/;", "');", "\");", ");", "%mend;", "%end;", ";;;;"]))
    cands += ["", ";", ";;", "* c;", "%* c;", "/*c*/;", "a;", "datalines;\n1\n;", "cards4;\nx\n;;;;", "%let a=1;", "%macro m; %mend;", "%m(1) * c;", "x='a;';", "%put a;", "%if 1 %then a;", "%do; %end;"]
    cands = list(dict.fromkeys(cands))
    ca = {v: impl.run_lex(v, cands, mode="lex") for v in ("debug", "release")}
    closed_idx = [i for i, c in enumerate(ca["release"]) if c.src is not None and (O.closed_prefix(O.Ctx(c, T)) or (cands[i] in gram and O.closed_prefix(O.Ctx(c, T), config=False)))]
    run.cov["prefix_candidates"] = len(cands)
    run.cov["grammar_prefixes_not_left_in_initial_configuration"] = sum(1 for i, c in enumerate(ca["release"]) if cands[i] in gram and c.src is not None and O.closed_prefix(O.Ctx(c, T), config=False) and not O.closed_prefix(O.Ctx(c, T)))
    run.cov["closed_prefixes"] = len(closed_idx)
    # --- continuations
    Bs = list(gen.FR) + gen.fragments(rng.fork("fb"), n, 5) + gen.open_code(rng.fork("ob"), n // 3, 5) + gen.unicode_stress(rng.fork("ub"), n // 8)
    Bs += [grammar.render(p)[0] for p in grammar_programs(run, rng.fork("gb"), n // 4, 2)]
    # starts whose reading depends on what the lexer remembers of the text before them (statement start, look-behind)
    SENS = ["datalines;\n1\n;", "cards;", "* c;", "*", "\n* c;\nx;", " * c ; y", "%then", "%let a=1;", "%else x", "%lbl: a", "=1", ")", "%mend;", "%end;", "1", "x", ":", "%to 1", "eq", "'", "\"", "%*c;", "/*", "%str(", "%m(", "&a", "%", "&",
            "lines4;\nx\n;;;;", "%m * c;", "/*c*/ * c;", "%mend; * c;", "%end; * c;", "; * c;"]
    Bs += SENS
    Bs = [b for b in dict.fromkeys(Bs) if not b.startswith("\ufeff")]
    rp = rng.fork("pairs")
    pairs = []
    per_a = tier_n(run, 3, 12)
    for i in closed_idx:
        for _ in range(per_a):
            pairs.append((i, Bs[rp.below(len(Bs))]))
    # every trigger fragment after a sample of prefixes of each kind
    for i in closed_idx[:: max(1, len(closed_idx) // tier_n(run, 40, 400))]:
        for b in gen.FR:
            if not b.startswith("\ufeff"):
                pairs.append((i, b))
    # generated programs after which the lexer is not back in its initial configuration (none on a lexer that
    # satisfies C12): the residue is what a continuation can trip over, so each gets every trigger fragment
    suspicious = [i for i in closed_idx if cands[i] in gram and not O.closed_prefix(O.Ctx(ca["release"][i], T))]
    suspicious.sort(key=lambda i: len(cands[i]))
    for i in suspicious[:tier_n(run, 40, 400)]:
        for b in list(gen.FR) + SENS:
            if not b.startswith("\ufeff"):
                pairs.append((i, b))
    # ... and, for residue that only shows after particular programs, the state-sensitive starts after all of them
    for i in suspicious[:tier_n(run, 400, 2000)]:
        for b in SENS:
            pairs.append((i, b))
    pairs = list(dict.fromkeys(pairs))
    bset = list(dict.fromkeys(b for _, b in pairs))
    bidx = {b: k for k, b in enumerate(bset)}
    abs_ = [cands[i] + b for i, b in pairs]
    run.cov["pairs"] = len(pairs)
    kinds = collections.Counter()
    for i in closed_idx:
        c = ca["release"][i]
        kinds[T.tt_name.get(c.toks[-2].type, "?") if len(c.toks) >= 2 else "?"] += 1
    run.cov["closing_token_kinds"] = dict(kinds)
    impl_fail = {"debug": set(), "release": set()}
    for variant in ("debug", "release"):
        cb = impl.run_lex(variant, bset, mode="lex")
        cab = impl.run_lex(variant, abs_, mode="lex")
        nbad = 0
        for (i, b), c_ab in zip(pairs, cab):
            a_case = ca[variant][i]
            b_case = cb[bidx[b]]
            by_construction = cands[i] in gram and not O.closed_prefix(O.Ctx(a_case, T)) and O.closed_prefix(O.Ctx(a_case, T), config=False)
            if a_case.outcome != "ok" or not (by_construction or O.closed_prefix(O.Ctx(a_case, T))):
                continue
            if b_case.outcome != "ok" or c_ab.outcome != "ok":
                # panics/hangs belong to C01 unless only the composition fails
                if b_case.outcome == "ok" and c_ab.outcome != "ok":
                    f = [f"B alone lexes, A followed by B does not: {c_ab.outline[:100]}"]
                else:
                    continue
            else:
                f = O.glue_check(a_case, b_case, c_ab, T)
            run._distinct.update(bigram_keys(c_ab))
            if f:
                impl_fail[variant].add((i, b))
                A0 = cands[i]
                kf = run.known_class(A0 + b, f"closed prefix A={A0!r} followed by B={b!r}: {f[0]}")
                if kf:
                    run.known_hits[kf["id"]] = kf["text"]
                    run.cov["known_finding_instances"] = run.cov.get("known_finding_instances", 0) + 1
                    continue
                nbad += 1
                if nbad <= 4:

                    def fails(a, b_, _v=variant, _bc=by_construction):
                        x = impl.run_lex(_v, [a, b_, a + b_], mode="lex", jobs=1)
                        if len(x) < 3 or x[0].outcome != "ok" or x[1].outcome != "ok" or not (_bc or O.closed_prefix(O.Ctx(x[0], T))):
                            return False
                        if x[2].outcome != "ok":
                            return True
                        return bool(O.glue_check(x[0], x[1], x[2], T))
                    b_small = shrink_input(b, lambda y: fails(A0, y))
                    # a generated program that the lexer does not leave in the initial configuration is kept whole:
                    # it is closed by construction only as generated
                    a_small = A0 if by_construction else shrink_input(A0, lambda y: fails(y, b_small))
                    x = impl.run_lex(variant, [a_small, b_small, a_small + b_small], mode="lex", jobs=1)
                    msg = f[0]
                    try:
                        m2 = O.glue_check(x[0], x[1], x[2], T)
                        msg = m2[0] if m2 else msg
                    except Exception:
                        pass
                    note = " (A is a generated statement-complete program, closed by construction; the lexer's own end configuration after A is not the initial one)" if by_construction else ""
                    run.violation("oracle", f"[{variant}] closed prefix A={a_small!r} followed by B={b_small!r}: {msg}{note}", src=a_small + b_small,
                                  extra={"A": a_small, "B": b_small, "original_A": A0[:300], "original_B": b[:300]})
        run.count("pairs:" + variant, len(pairs))
        run.cov["streams"]["pairs:" + variant]["failures"] = nbad
    # --- the Coq statement (Spec/Glue.compose_check) evaluated by the extracted model on the same pairs
    if exe is not None:
        sub0 = pairs[:: max(1, len(pairs) // tier_n(run, 6000, 60000))]
        for profile in ("debug", "release"):
            sub = list(dict.fromkeys(sub0 + sorted(impl_fail[profile])))
            res = _compose_model(exe, [(cands[i], b) for i, b in sub], profile)
            cnt = collections.Counter(res)
            run.cov.setdefault("model_compose_check", {})[profile] = dict(cnt)
            run.cov["traces_validated_against_impl"] = run.cov.get("traces_validated_against_impl", 0) + cnt.get("holds", 0)
            for (i, b), r_ in zip(sub, res):
                if (r_ == "holds") == ((i, b) not in impl_fail[profile]) and r_ in ("holds", "fails"):
                    continue
                if ca[profile][i].outcome != "ok":
                    continue
                if r_ == "holds":
                    r_ = "holds-but-impl-fails"
                if not getattr(run, "pending_break", None) and not run.violations:
                    what = {"fails": "the model's run on A++B is not the glue of its runs on A and B",
                            "notclosed": "the Coq definition of a closed prefix rejects a prefix the harness accepts",
                            "holds-but-impl-fails": "the model composes where the implementation does not",
                            "crash": "the extracted model crashed"}.get(r_, r_)
                    run.pending_break = ("correspondence", f"[{profile}] compose_check: {what}: A={cands[i][:80]!r} B={b[:80]!r}")
        # whole-lexer correspondence on the compositions
        correspond(run, exe, abs_[:: max(1, len(abs_) // tier_n(run, 8000, 100000))], ("debug", "release"), T, None, stream="compositions")
    run.sample({"A": cands[closed_idx[0]] if closed_idx else "", "B": Bs[0]})
    if pairs:
        run.sample({"A": cands[pairs[len(pairs) // 2][0]][:200], "B": pairs[len(pairs) // 2][1][:200]})
    run.cov["rule"] = ("prefix candidates: rendered grammar programs, fragment/open-code/Unicode strings (also with a closing ';' variant appended), corpus; kept when the "
                       "implementation's end-of-input snapshot is the initial configuration and the last token is a consumed ';' or a closed statement comment (DESIGN 6.4); generated programs that end that way count as closed by construction even if the snapshot is not initial, and each such program is followed by every trigger fragment; "
                       "continuations: every trigger fragment, random fragment strings, open code, Unicode stress, grammar programs, look-behind-sensitive starts; "
                       "lex(A), lex(B), lex(A+B) by the implementation (debug, release), compared through the glue oracle; the same pairs through the extracted Coq compose_check")
    run.assumptions += ["proved: the composition statement for the production ';'* (every closed prefix of empty statements, every continuation of empty statements, release profile) and the boundary step from any open-code state",
                        "the statement for all closed prefixes and continuations is evaluated (implementation through the harness oracle, model through the extracted Coq definition), not proved (partial)"]
    settle_break(run)


def check_C08(run):
    lexer_check(run, "C08", O.c08, 3000, 80000,
                extra_inputs=lambda rng, run: gen.numeric_stream(rng.fork("num"), tier_n(run, 30000, 600000)))
    run.assumptions += ["proved (model): integer readings, round-to-nearest-even against Flocq's rounding operator, the float reading of every decimal/exponent spelling; axioms: the standard library's real-number axioms",
                        "tested on every numeric token (oracle: exact integer parsing, Python float() as correctly rounded reference): notation disambiguation in lex_numeric_literal, macro-expression contexts, extent of malformed literals",
                        "lexical 7.0.2 parse_partial is modelled (Model/Numeric.v) and compared with the crate on every input; a difference on a float payload is a C08 violation of the implementation because the model side is proved"]


def check_C20(run):
    import pybind, grammar, subprocess, concurrent.futures as cf
    from common import NCPU
    rng = Rng(run.seed).fork("C20")
    info = coq_part(run, "C20")
    if info and isinstance(info.get("gen"), dict):
        run.cov["wire_sources"] = info["gen"].get("wire")
    try:
        exe = coqbuild.build_model()
    except CoqFailure as e:
        exe = None
        run.pending_break = ("model-build", e.detail[:600])
    b = pybind.Binding()
    try:
        ok = b.build()
        if not ok:
            run.cov["binding_build_log"] = b.build_log[-800:]
            run.violation("binding-build", "the extension module does not build from the working tree: " + b.build_log[-300:], src=None, found_input=False)
            settle_break(run)
            return
        run.cov["enum_modules_regenerated_identical"] = not b.enum_diff
        for d in b.enum_diff[:3]:
            run.violation("enums", "a committed Python enum module is not what the build script generates from the linked crate: " + d, src=d)
        try:
            tn, en = pybind.py_names()
            enums = pybind.py_enums()
        except Exception as ex:
            run.violation("python-sources", f"cannot read the Python classes: {ex}", src=None, found_input=False)
            settle_break(run)
            return
        n = tier_n(run, 4000, 80000)
        wf_progs = [grammar.render(p)[0] for p in grammar_programs(run, rng, n // 2, 3)]
        wf_progs += gen.sample_files()
        arb = gen.regression_corpus() + gen.fragments(rng.fork("f"), n, 7) + gen.open_code(rng.fork("o"), n // 2, 8) + gen.unicode_stress(rng.fork("u"), n // 3)
        arb += gen.lexeme_stream(rng.fork("lx"), n // 2) + gen.numeric_stream(rng.fork("num"), n // 4) + gen.escape_stream(rng.fork("esc"), n // 4)
        t_ = gen.test_strings()
        r2 = rng.fork("t")
        arb += [t_[r2.below(len(t_))] for _ in range(min(len(t_), n // 4))]
        arb += ["\ufeff" + s_ for s_ in arb[:: 17]]
        ins = [(s_, True) for s_ in wf_progs] + [(s_, False) for s_ in dict.fromkeys(arb)]
        k = min(NCPU, max(1, len(ins) // 300))
        size = (len(ins) + k - 1) // k
        chunks = [ins[i:i + size] for i in range(0, len(ins), size)]
        with cf.ThreadPoolExecutor(max_workers=k) as ex:
            results = [r for part in ex.map(lambda ch: b.call([s_ for s_, _ in ch]), chunks) for r in part]
        outcomes = collections.Counter()
        wire_lines = []
        wire_owner = []
        nbad = 0
        decoded = {}
        for idx, ((src, is_wf), (kind, val)) in enumerate(zip(ins, results)):
            outcomes[("wf:" if is_wf else "arb:") + kind] += 1
            if kind != "ok":
                if is_wf:
                    kf = run.known_class(src, f"binding does not return on a well-formed program ({kind} {val})")
                    if kf:
                        run.known_hits[kf["id"]] = kf["text"]
                    else:
                        run.violation("returns", f"the binding does not return a result on a well-formed program: {kind} {val}", src=src)
                continue
            try:
                toks, errs, lit = pybind.decode_result(val, tn, en)
            except pybind.WireError as ex:
                run.violation("wire", f"the returned bytes do not decode positionally into Token/Error: {ex}", src=src, extra={"bytes": val.hex()[:2000]})
                continue
            decoded[idx] = (toks, errs, lit)
            wire_lines.append(val.hex())
            wire_owner.append(idx)
            f = pybind.contract(src, toks, errs, lit, enums)
            if f:
                msg = f"Python-level contract: {f[0]}"
                kf = run.known_class(src, msg)
                if kf:
                    run.known_hits[kf["id"]] = kf["text"]
                    run.cov["known_finding_instances"] = run.cov.get("known_finding_instances", 0) + 1
                    continue
                nbad += 1
                if nbad <= 4:
                    def still(x):
                        r_ = b.call([x])
                        if not r_ or r_[0][0] != "ok":
                            return False
                        try:
                            d = pybind.decode_result(r_[0][1], tn, en)
                        except pybind.WireError:
                            return True
                        ff = pybind.contract(x, d[0], d[1], d[2], enums)
                        return bool(ff) and not run.known_class(x, f"Python-level contract: {ff[0]}")
                    small = shrink_input(src, still)
                    r_ = b.call([small])
                    try:
                        d = pybind.decode_result(r_[0][1], tn, en)
                        ff = pybind.contract(small, d[0], d[1], d[2], enums)
                        msg = f"Python-level contract: {ff[0]}" if ff else msg
                    except Exception:
                        pass
                    run.violation("contract", msg, src=small, extra={"original": src[:400]})
        run.count("binding", len(ins))
        run.cov["streams"]["binding"]["outcomes"] = dict(outcomes)
        run.cov["streams"]["binding"]["contract_failures"] = nbad
        # the Coq reader/writer on the real bytes
        if exe is not None and wire_lines:
            def wire_chunk(lines):
                p_ = subprocess.run([exe, "wire"], input=("tok " + ",".join(tn) + " err " + ",".join(en) + "\n" + "\n".join(lines) + "\n").encode(), capture_output=True, timeout=1800)
                return p_.stdout.decode()
            kk = min(NCPU, max(1, len(wire_lines) // 200))
            sz = (len(wire_lines) + kk - 1) // kk
            parts = [wire_lines[i:i + sz] for i in range(0, len(wire_lines), sz)]
            with cf.ThreadPoolExecutor(max_workers=kk) as ex:
                texts = list(ex.map(wire_chunk, parts))
            blocks = [blk for t_ in texts for blk in t_.split("CASE ")[1:]]
            same = 0
            diffs = 0
            for blk, idx in zip(blocks, wire_owner):
                lines = blk.split("\n")
                toks, errs, lit = decoded[idx]
                want = ["PT " + " ".join(f"{k_}={pybind.canon(t[k_])}" for k_ in tn) for t in toks]
                want += ["PE " + " ".join(f"{k_}={pybind.canon(e[k_])}" for k_ in en) for e in errs]
                want += ["PLIT " + lit.hex()]
                got = [l for l in lines[1:] if l.startswith(("PT ", "PE ", "PLIT"))]
                w = next((l for l in lines if l.startswith("WIRE ")), "WIRE missing")
                if w == "WIRE same" and got == want:
                    same += 1
                else:
                    diffs += 1
                    if not getattr(run, "pending_break", None):
                        run.pending_break = ("correspondence", f"the Coq wire model and the binding differ on input {ins[idx][0][:100]!r}: {w[:200]}; python view equal: {got == want}")
            if len(blocks) != len(wire_owner):
                run.pending_break = getattr(run, "pending_break", None) or ("correspondence", "the extracted wire reader stopped early")
            run.cov["wire_model"] = {"messages": len(wire_owner), "reencoded_identically_and_same_python_view": same, "differences": diffs}
            run.cov["traces_validated_against_impl"] = same
            run.cov["disagreements_checked"] = diffs
        run.sample({"source": ins[0][0][:200]})
        run.sample({"source": ins[len(ins) // 2][0][:200]})
        run.cov["rule"] = ("extension module built (release) from a scratch copy of /repo's working tree, called through python3; inputs: rendered grammar programs and sample files "
                           "(must return), corpus, fragment/open-code/Unicode/lexeme/numeric/escape streams, test-suite strings, BOM-prefixed variants (contract whenever a result is returned); "
                           "bytes read with an independent MessagePack reader through the attribute order parsed from token.py/error.py, judged by the Python-level contract, and "
                           "read/re-written by the extracted Coq reader/writer (byte-identical re-encoding, same attribute view)")
        run.assumptions += ["the lexer inside the binding is the published registry crate named in sas-lexer-py/Cargo.toml (not the workspace crate): its tokenization is not modelled; panics inside it are outside the property; hangs/panics on arbitrary strings are counted, not reported",
                            "msgspec itself is not run (not installed offline): its array_like positional decoding is modelled by py_struct and by the independent reader",
                            "proved: MessagePack round trip for all values, positional binding of attributes to fields, field lists and enum tables generated from both sides agree"]
    finally:
        b.close()
    settle_break(run)


CHECKS = {"C20": check_C20, "C08": check_C08, "C15": check_C15, "C11": check_C11, "C01": check_C01, "C04": check_C04, "C06": check_C06, "C07": check_C07, "C12": check_C12, "C13": check_C13, "C14": check_C14, "C10": check_C10, "C16": check_C16, "C17": check_C17, "C18": check_C18, "C09": check_C09, "C05": check_C05, "C03": check_C03, "C02": check_C02, "C19": check_C19}
