#!/bin/bash
# build one Coq target with a time limit and show the first error compactly
cd /verif/coq
T=${2:-300}
out=$(timeout $T make "$1" 2>&1)
rc=$?
if [ $rc -eq 124 ]; then echo "TIMEOUT after $T s"; exit 1; fi
echo "$out" | grep -B2 -A30 "^Error\|Terminated\|Killed" | grep -v "^  [A-Za-z_' 0-9,]* :" | head -${3:-40}
echo "$out" | grep -A8 "^Unable\|^The term\|^Found no\|^  =====" | tail -${4:-14}
[ $rc -eq 0 ] && echo BUILD-OK
