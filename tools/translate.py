#!/usr/bin/env python3
"""Translator: regenerates coq/Gen/*.v from /repo's working tree on every run (DESIGN.md §4.1).

It reads the *tables* of the crate (enums with their order, keyword derive rule, matches!-lists,
expect_* mode preloads, character tables, struct field orders, cfg inventory) and emits Coq
definitions.  Control flow is not translated: it is hand-modelled in coq/Model and tied to the
code by the correspondence check.  On anything it does not recognise it raises TranslateError,
which the check reports as a broken tie.
"""
import os, re, sys, json

sys.path.insert(0, os.path.dirname(os.path.abspath(__file__)))
from common import VERIF, REPO, CRATE, SRC


class TranslateError(Exception):
    pass


def strip_comments(s):
    """remove // and /* */ comments and keep string/char literals intact"""
    out = []
    i, n = 0, len(s)
    while i < n:
        c = s[i]
        if s.startswith("//", i):
            j = s.find("\n", i)
            i = n if j < 0 else j
        elif s.startswith("/*", i):
            j = s.find("*/", i + 2)
            i = n if j < 0 else j + 2
        elif c == '"':
            j = i + 1
            while j < n and s[j] != '"':
                j += 2 if s[j] == "\\" else 1
            out.append(s[i:j + 1])
            i = j + 1
        elif c == "'" and re.match(r"'(\\.|[^\\'])'", s[i:i + 4] if s[i + 1:i + 2] != "\\" else s[i:i + 5]):
            m = re.match(r"'(\\u\{[0-9a-fA-F]+\}|\\.|[^\\'])'", s[i:])
            out.append(m.group(0))
            i += len(m.group(0))
        else:
            out.append(c)
            i += 1
    return "".join(out)


def find_block(s, start):
    """s[start] == '{' -> index just past the matching '}' (strings/chars respected)"""
    assert s[start] == "{"
    depth = 0
    i, n = start, len(s)
    while i < n:
        c = s[i]
        if c == '"':
            i += 1
            while i < n and s[i] != '"':
                i += 2 if s[i] == "\\" else 1
        elif c == "'":
            m = re.match(r"'(\\u\{[0-9a-fA-F]+\}|\\.|[^\\'])'", s[i:])
            if m:
                i += len(m.group(0)) - 1
        elif c == "{":
            depth += 1
        elif c == "}":
            depth -= 1
            if depth == 0:
                return i + 1
        i += 1
    raise TranslateError("unbalanced braces")


def enum_body(src, name):
    m = re.search(r"\benum\s+" + name + r"\s*\{", src)
    if not m:
        raise TranslateError(f"enum {name} not found")
    end = find_block(src, m.end() - 1)
    return src[m.end():end - 1]


def read(path):
    with open(path, encoding="utf-8") as f:
        return f.read()


def coq_string(s):
    return '"' + s.replace('"', '""') + '"'


# ------------------------------------------------------------------ G1 TokenType / keywords


def parse_token_type():
    src = strip_comments(read(os.path.join(SRC, "token_type.rs")))
    body = enum_body(src, "TokenType")
    variants = []  # (name, [keywords] or None)
    pending_kw = None
    for m in re.finditer(r"#\[keyword\(([^)]*)\)\]|#\[[^\]]*\]|([A-Za-z_][A-Za-z0-9_]*)\s*(?:=\s*\d+\s*)?,", body):
        if m.group(1) is not None:
            pending_kw = re.findall(r'"([^"]*)"', m.group(1))
        elif m.group(2):
            variants.append((m.group(2), pending_kw))
            pending_kw = None
    if not variants or variants[0][0] != "EOF":
        raise TranslateError("TokenType variants not recognised")
    # derive rule constants, re-read from the macro crate
    mac = read(os.path.join(REPO, "crates", "sas-lexer-macro", "src", "lib.rs"))
    rule_ok = ('starts_with("Kw")' in mac and '!variant.ident.to_string().starts_with("Kwm")' in mac
               and "ident[2..].to_ascii_uppercase()" in mac and "ident[3..].to_ascii_uppercase()" in mac
               and mac.count("kw.value().to_ascii_uppercase()") == 2)
    if not rule_ok:
        raise TranslateError("keyword derive rule of sas-lexer-macro changed: translator must be revisited")
    kws, mkws = [], []
    for name, attr in variants:
        if name.startswith("Kwm"):
            for k in (attr if attr is not None else [name[3:]]):
                mkws.append((k.upper(), name))
        elif name.startswith("Kw"):
            for k in (attr if attr is not None else [name[2:]]):
                kws.append((k.upper(), name))
    sub = re.search(r"#\[subset\(name\s*=\s*(\w+),\s*start\s*=\s*(\w+),\s*end\s*=\s*(\w+)\)\]", src)
    if not sub:
        raise TranslateError("subset attribute not found")
    rq = re.search(r"MACRO_QUOTE_CALL_TOKEN_TYPE_RANGE[^=]*=\s*\(TokenType::(\w+) as u16, TokenType::(\w+) as u16\)", src)
    rs = re.search(r"MACRO_STAT_TOKEN_TYPE_RANGE[^=]*=\s*\(TokenType::(\w+) as u16, TokenType::(\w+) as u16\)", src)
    if not rq or not rs:
        raise TranslateError("token type ranges not found")
    return {"variants": [v for v, _ in variants], "kws": kws, "mkws": mkws,
            "subset": (sub.group(2), sub.group(3)), "quote_range": rq.groups(), "stat_range": rs.groups()}


def gen_token_type(tt):
    vs = tt["variants"]
    o = []
    o.append("(* GENERATED by tools/translate.py from crates/sas-lexer/src/lexer/token_type.rs - do not edit *)")
    o.append("From Coq Require Import NArith List String.\nImport ListNotations.\nOpen Scope N_scope.\n")
    o.append("Inductive TokenType : Set :=\n" + "\n".join(f"| T_{v}" for v in vs) + ".\n")
    o.append("Definition tt_to_N (t : TokenType) : N :=\n  match t with\n" + "\n".join(f"  | T_{v} => {i}" for i, v in enumerate(vs)) + "\n  end.\n")
    o.append("Definition tt_of_N (n : N) : option TokenType :=\n  match n with\n" + "\n".join(f"  | {i} => Some T_{v}" for i, v in enumerate(vs)) + "\n  | _ => None\n  end.\n")
    o.append("Definition tt_name (t : TokenType) : string :=\n  match t with\n" + "\n".join(f"  | T_{v} => {coq_string(v)}" for v in vs) + "\n  end%string.\n")
    o.append(f"Definition TT_COUNT : N := {len(vs)}.\n")
    o.append("Definition all_token_types : list TokenType :=\n  [" + "; ".join(f"T_{v}" for v in vs) + "].\n")
    o.append("Definition tt_eqb (a b : TokenType) : bool := N.eqb (tt_to_N a) (tt_to_N b).\n")
    o.append("Definition KEYWORDS : list (string * TokenType) :=\n  [" + ";\n   ".join(f"({coq_string(k)}, T_{v})" for k, v in tt["kws"]) + "]%string.\n")
    o.append("Definition MKEYWORDS : list (string * TokenType) :=\n  [" + ";\n   ".join(f"({coq_string(k)}, T_{v})" for k, v in tt["mkws"]) + "]%string.\n")
    o.append(f"Definition MAX_KEYWORDS_LEN : N := {max(len(k) for k, _ in tt['kws'])}.")
    o.append(f"Definition MAX_MKEYWORDS_LEN : N := {max(len(k) for k, _ in tt['mkws'])}.\n")
    o.append(f"Definition SUBSET_START : TokenType := T_{tt['subset'][0]}.\nDefinition SUBSET_END : TokenType := T_{tt['subset'][1]}.")
    o.append(f"Definition MACRO_QUOTE_CALL_RANGE : N * N := (tt_to_N T_{tt['quote_range'][0]}, tt_to_N T_{tt['quote_range'][1]}).")
    o.append(f"Definition MACRO_STAT_RANGE : N * N := (tt_to_N T_{tt['stat_range'][0]}, tt_to_N T_{tt['stat_range'][1]}).\n")
    # obligations
    o.append("Lemma tt_of_to : forall t, tt_of_N (tt_to_N t) = Some t.\nProof. destruct t; reflexivity. Qed.\n")
    o.append("Lemma tt_to_N_inj : forall a b, tt_to_N a = tt_to_N b -> a = b.\nProof. intros a b H. assert (Some a = Some b) as E by (rewrite <- !tt_of_to, H; reflexivity). congruence. Qed.\n")
    o.append("Lemma tt_eqb_eq : forall a b, tt_eqb a b = true <-> a = b.\nProof. intros a b; unfold tt_eqb; rewrite N.eqb_eq; split; [apply tt_to_N_inj | intros ->; reflexivity]. Qed.\n")
    o.append("Lemma tt_numbering : map tt_to_N all_token_types = map N.of_nat (seq 0 (List.length all_token_types)).\nProof. vm_compute. reflexivity. Qed.\n")
    o.append("Lemma tt_count : N.of_nat (List.length all_token_types) = TT_COUNT.\nProof. reflexivity. Qed.\n")
    return "\n".join(o) + "\n"


# ------------------------------------------------------------------ G2 ErrorKind, G3 TokenChannel


def parse_error_kind():
    src = strip_comments(read(os.path.join(SRC, "error.rs")))
    body = enum_body(src, "ErrorKind")
    vs = [(m.group(1), int(m.group(2))) for m in re.finditer(r"([A-Za-z_][A-Za-z0-9_]*)\s*=\s*(\d+)\s*,", body)]
    if not vs:
        raise TranslateError("ErrorKind variants not recognised")
    m = re.search(r"INTERNAL_ERROR_RANGE:\s*Range<u16>\s*=\s*(\d+)\.\.(\d+)", src)
    if not m:
        raise TranslateError("INTERNAL_ERROR_RANGE not found")
    fields = re.search(r"pub struct ErrorInfo\s*\{([^}]*)\}", src)
    fl = re.findall(r"(\w+)\s*:", fields.group(1))
    return {"variants": vs, "internal": (int(m.group(1)), int(m.group(2))), "fields": fl}


def gen_error_kind(ek):
    vs = ek["variants"]
    o = ["(* GENERATED by tools/translate.py from crates/sas-lexer/src/lexer/error.rs - do not edit *)",
         "From Coq Require Import NArith List String Bool.\nImport ListNotations.\nOpen Scope N_scope.\n"]
    o.append("Inductive ErrorKind : Set :=\n" + "\n".join(f"| E_{v}" for v, _ in vs) + ".\n")
    o.append("Definition ek_code (e : ErrorKind) : N :=\n  match e with\n" + "\n".join(f"  | E_{v} => {c}" for v, c in vs) + "\n  end.\n")
    o.append("Definition ek_of_code (n : N) : option ErrorKind :=\n  match n with\n" + "\n".join(f"  | {c} => Some E_{v}" for v, c in vs) + "\n  | _ => None\n  end.\n")
    o.append("Definition ek_name (e : ErrorKind) : string :=\n  match e with\n" + "\n".join(f"  | E_{v} => {coq_string(v)}" for v, _ in vs) + "\n  end%string.\n")
    o.append("Definition all_error_kinds : list ErrorKind :=\n  [" + "; ".join(f"E_{v}" for v, _ in vs) + "].\n")
    lo, hi = ek["internal"]
    o.append(f"Definition ek_is_internal (e : ErrorKind) : bool := ({lo} <=? ek_code e) && (ek_code e <? {hi}).\n")
    o.append("Definition ek_eqb (a b : ErrorKind) : bool := N.eqb (ek_code a) (ek_code b).\n")
    o.append("Definition ERROR_INFO_FIELDS : list string := [" + "; ".join(coq_string(f) for f in ek["fields"]) + "]%string.\n")
    o.append("Lemma ek_of_to : forall e, ek_of_code (ek_code e) = Some e.\nProof. destruct e; reflexivity. Qed.\n")
    o.append("Lemma ek_code_inj : forall a b, ek_code a = ek_code b -> a = b.\nProof. intros a b H. assert (Some a = Some b) as E by (rewrite <- !ek_of_to, H; reflexivity). congruence. Qed.\n")
    o.append("Lemma ek_eqb_eq : forall a b, ek_eqb a b = true <-> a = b.\nProof. intros a b; unfold ek_eqb; rewrite N.eqb_eq; split; [apply ek_code_inj | intros ->; reflexivity]. Qed.\n")
    return "\n".join(o) + "\n"


def parse_channel():
    src = strip_comments(read(os.path.join(SRC, "channel.rs")))
    body = enum_body(src, "TokenChannel")
    vs = [m.group(1) for m in re.finditer(r"(?:#\[[^\]]*\]\s*)*([A-Z_]+)\s*,", body)]
    if vs != ["DEFAULT", "HIDDEN", "COMMENT"]:
        raise TranslateError(f"TokenChannel variants changed: {vs}")
    return vs


def gen_channel(vs):
    o = ["(* GENERATED by tools/translate.py from crates/sas-lexer/src/lexer/channel.rs - do not edit *)",
         "From Coq Require Import NArith List String.\nImport ListNotations.\nOpen Scope N_scope.\n"]
    o.append("Inductive TokenChannel : Set := " + " | ".join(f"CH_{v}" for v in vs) + ".\n")
    o.append("Definition ch_to_N (c : TokenChannel) : N := match c with " + " | ".join(f"CH_{v} => {i}" for i, v in enumerate(vs)) + " end.\n")
    o.append("Definition ch_name (c : TokenChannel) : string := match c with " + " | ".join(f"CH_{v} => {coq_string(v)}" for v in vs) + " end%string.\n")
    o.append("Definition ch_eqb (a b : TokenChannel) : bool := N.eqb (ch_to_N a) (ch_to_N b).\n")
    o.append("Lemma ch_eqb_eq : forall a b, ch_eqb a b = true <-> a = b.\nProof. destruct a, b; vm_compute; split; congruence. Qed.\n")
    return "\n".join(o) + "\n"


# ------------------------------------------------------------------ driver


def write_if_changed(path, text):
    os.makedirs(os.path.dirname(path), exist_ok=True)
    try:
        if read(path) == text:
            return False
    except FileNotFoundError:
        pass
    with open(path, "w", encoding="utf-8") as f:
        f.write(text)
    return True


def gen_unicode(tables_text):
    """G8: Unicode predicate tables, *executed* from the linked crates by `implrun tables`"""
    rows = {}
    for ln in tables_text.split("\n"):
        p = ln.split(" ")
        if p[0] in ("WS", "XIDS", "XIDC"):
            rows[p[0]] = [tuple(map(int, r.split("-"))) for r in p[1:] if r]
        elif p[0] == "NSCHECK" and p[1] != "1":
            raise TranslateError("name-start predicate of the crate is not XID_Start or '_'")
    if set(rows) != {"WS", "XIDS", "XIDC"}:
        raise TranslateError("unicode tables missing from implrun output")
    o = ["(* GENERATED by tools/translate.py from `implrun tables` (char::is_whitespace, unicode-ident as linked) - do not edit *)",
         "From Coq Require Import NArith List.\nImport ListNotations.\nOpen Scope N_scope.\n"]
    for k, name in (("WS", "WS_RANGES"), ("XIDS", "XID_START_RANGES"), ("XIDC", "XID_CONTINUE_RANGES")):
        body = ";\n   ".join("; ".join(f"({a}, {b})" for a, b in rows[k][i:i + 8]) for i in range(0, len(rows[k]), 8))
        o.append(f"Definition {name} : list (N * N) :=\n  [{body}].\n")
    return "\n".join(o) + "\n"


def main(outdir=None, tables_text=None):
    outdir = outdir or os.path.join(VERIF, "coq", "Gen")
    changed = []
    tt = parse_token_type()
    ek = parse_error_kind()
    ch = parse_channel()
    files = {"TokenType.v": gen_token_type(tt), "ErrorKind.v": gen_error_kind(ek), "Channel.v": gen_channel(ch)}
    if tables_text is not None:
        files["Unicode.v"] = gen_unicode(tables_text)
    try:
        import translate_tables
        files.update(translate_tables.generate(tt, ek))
    except ImportError:
        pass
    wire_meta = None
    try:
        import translate_wire
        wf, wire_meta = translate_wire.generate()
        files.update(wf)
    except TranslateError as e:
        # only C20 depends on this file: make its build fail with the reason, leave the others alone
        msg = str(e).replace('"', "'")
        files["WireFields.v"] = f'(* GENERATED: the wire translator failed *)\nFrom Coq Require Import String.\nDefinition WIRE_TRANSLATION_ERROR : False := "{msg}"%string.\n'
        wire_meta = {"error": str(e)}
    for name, text in files.items():
        if write_if_changed(os.path.join(outdir, name), text):
            changed.append(name)
    meta = {"token_types": len(tt["variants"]), "keywords": len(tt["kws"]), "macro_keywords": len(tt["mkws"]),
            "error_kinds": len(ek["variants"]), "changed": changed, "files": sorted(files), "wire": wire_meta}
    with open(os.path.join(outdir, "meta.json"), "w") as f:
        json.dump(meta, f, indent=1)
    return meta


if __name__ == "__main__":
    try:
        print(json.dumps(main()))
    except TranslateError as e:
        print("TRANSLATE-ERROR:", e)
        sys.exit(3)
