#!/usr/bin/env python3
"""Apply a stored seeded change to /repo, run the given checks, undo it. usage: seedrun.py <id> C01 C02 ..."""
import os, sys, subprocess, json, re
sid, props = sys.argv[1], sys.argv[2:]
patch = f"/verif/seeded/{sid}/patch.diff"
assert subprocess.run(["git", "-C", "/repo", "status", "--porcelain", "--untracked-files=no"], capture_output=True, text=True).stdout.strip() == "", "repo dirty"
r = subprocess.run(["git", "-C", "/repo", "apply", patch], capture_output=True, text=True)
assert r.returncode == 0, r.stderr
out = {}
try:
    for p in props:
        r = subprocess.run(["./check", p, "--tier", "quick"], cwd="/verif", capture_output=True, text=True)
        vio = [l for l in r.stdout.split("\n") if l.startswith("VIOLATION")]
        detail = ""
        if vio:
            m = re.search(r"replay=(\S+)", vio[0])
            if m and os.path.exists(m.group(1)):
                j = json.load(open(m.group(1)))
                detail = f"{j['what']}: {j['detail'][:160]} input={j['input']!r}"[:330]
        out[p] = (r.returncode, vio[0][:60] + ("..." + vio[0][-25:] if vio else "") if vio else "", detail)
        print(p, out[p], flush=True)
finally:
    subprocess.run(["git", "-C", "/repo", "checkout", "--", "."])
