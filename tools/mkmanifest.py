#!/usr/bin/env python3
"""Regenerates MANIFEST.json from the per-property descriptions below (kept next to the checks)."""
import json, os, sys
sys.path.insert(0, os.path.dirname(os.path.abspath(__file__)))
HERE = os.path.dirname(os.path.dirname(os.path.abspath(__file__)))
TECH = "machine-checked proof in Rocq/Coq 8.16 over an executable Gallina model of the lexer + extracted-model correspondence with the implementation"
COMMON_NOTE = ("Trusted: Coq kernel (full .vo builds, Print Assumptions: no axioms), tools/translate.py (generated tables), extraction (ExtrOcamlBasic only) and the OCaml driver, "
               "the implrun harness and comparison scripts, the hook (cfg sas_lexer_verif). The theorems are about the hand-written Gallina model (coq/Model), whose handlers can change the "
               "state only through the modelled primitives; model and implementation are compared byte for byte (tokens, lines, literal buffer, errors, accessors, bulk view, iteration count, "
               "end-of-input mode stack) on every generated input in the listed build variants. ")
P = {
 "C01": ("Theorems (no axioms): for every program over the primitives the pending-statement stack is never empty (so the 9009 recovery branches are unreachable) and every position handed to the buffer is a text position; the production ';'* returns within budget without error for every length. Totality itself is tested: panics (catch_unwind), the 8n+64 iteration budget (hook, debug and release), internal errors and linear output on every stream incl. all truncations of the sample programs and 2^k repetitions of fragments; the model reproduces the iteration count exactly.",
         "partial: no termination proof over all handlers yet (measure described in DESIGN.md §7 C01); memory growth not measured."),
 "C02": ("Theorems (no axioms): every token start is inside the text on a UTF-8 boundary (all inputs, all programs over the primitives); start offsets never decrease whenever the debug-profile run returns, in both profiles; the last token is EOF; every accessor succeeds on a well-formed buffer. First-token-after-BOM, single EOF and exact concatenation are tested by the oracle on every input.",
         "partial: sortedness is conditional on the debug run returning (C01); WFbuf of lexer output is evaluated (wfbuf_b), not proved."),
 "C03": ("Theorem C03_char_offsets (no axioms, unconditional): for every source, profile and feature setting every token and error offset is the position of a prefix whose character count is the reported character offset; proved once per primitive and lifted to every program over the primitives.",
         "source below 2^32 bytes."),
 "C04": ("Theorems (no axioms): for every program over the primitives the line table equals first-line-start :: position after every line feed, hence line count = 1 + #LF, as long as the line-protocol monitor of the run is on. Token/error line and column and end positions are tested by the oracle (recomputed from the text) on every input, with line feeds injected at every position of every fragment.",
         "partial: conditional on the monitor flag (evaluated by the model run on every input); end-position reading as in DESIGN.md §7 C04."),
 "C05": ("Theorem C05_views_agree (no axioms): for every well-formed buffer and both profiles the bulk view returns one row per token equal to the ten accessors, none failing. Tie: Gallina accessors/bulk view run (extracted) against buffer.rs on hand-built buffers via a cfg-guarded constructor and on lexed buffers; WFbuf evaluated on every returned buffer.",
         "u32 additions assumed not to overflow (values < 2^32-1)."),
 "C06": ("Theorems (by computation over the generated enumerations): keyword maps unambiguous, upper-case, within the declared maximal length, macro keywords inside the call/statement subset, ASCII rows of the Unicode predicates equal their closed forms, delimiters are not identifier characters. Per-type shapes of DESIGN.md §6.1 are tested on every token of every input.",
         "partial: shapes are tested, tables proved; keyword spelling judged against maps executed from the built crate."),
 "C07": ("Theorem C07_hex_string_decoding (no axioms, all inputs): the hex-string decoder accepts exactly bodies that, commas removed, are an even number of hex digits and returns the byte values of the pairs (Latin-1). Partition of the literal buffer by the payload ranges and payload = unquoted token text are tested on every token of every input by an independent unquoting oracle, with a dedicated escape-placement stream.",
         "partial: content/partition tested, decoder proved."),
 "C08": ("Theorems (all inputs; axioms: the four real-number axioms of Coq's standard library, through Reals/Flocq): decimal and hexadecimal integer readings are the positional value of the maximal digit prefix, exact when it fits 64 bits (no axioms); round_b64 num den is the IEEE-754 binary64 nearest-ties-to-even of num/den, stated against Flocq's round radix2 (FLT_exp (-1074) 53) ZnearestE with overflow to the infinity pattern, and the bit patterns are read as Flocq's b64_of_bits reads them; for every literal spelled digits[.digits][(e|E)[+|-]digits] try_parse_float consumes exactly the literal, types it by its notation and returns the correctly rounded double of its decimal value. Every numeric token of every input (incl. a dedicated stream of boundary, halfway, subnormal, overflow and hex spellings in open code and macro expression contexts) is judged by an independent oracle (exact integers, Python float()).",
         "partial: notation disambiguation in lex_numeric_literal, macro-expression contexts and the extent of malformed literals are tested, not proved; lexical::parse_partial is modelled and compared with the crate on every input (exponents with more than 6 significant digits saturate in model and crate alike and are outside the float theorem)."),
 "C09": ("Theorem C09_error_offsets (no axioms, unconditional): every error offset is a prefix position within the text with the matching character offset. last_token anchoring, source order and the missing-symbol/virtual-token pairing are tested by the oracle and monitored in the model run (no error survives a rollback).",
         "partial."),
 "C10": ("Theorems (by computation): every argument-taking built-in pre-loads 'skip ws/comments, expect ( on its channel' on top and 'expect )' at the bottom; every macro keyword has a dispatch arm; ';'-terminated statements pre-load the ';' expectation. Balance of string expressions, datalines triples, label colons over all inputs (incl. every truncation of a sample program) is tested by the oracle.",
         "partial."),
 "C11": ("The open-code grammar is the Coq function Spec/RefLex.reflex (pure longest-match reader with two bits of carried state, no modes or handlers). Theorems (no axioms) about it: whitespace and ampersand runs are maximal, a C-style comment ends at the first closer, '*' is a comment to the next ';' exactly at statement start. The implementation (debug, release) is compared with the extracted reference on every macro-free input (decided by the extracted predicate macro_free): type, channel, byte offset and payload of every token, kind and offset of every error, the literal buffer; any difference is a violation with the shrunk input.",
         "partial: lexer = reference on macro-free text is established by execution of the extracted reference against the implementation over structured and exhaustive-pair streams, not by a theorem relating the lexer model to the reference."),
 "C12": ("Theorem C12_empty_statements (no axioms): for every n, the program of n empty statements lexes (release profile) without error into n SEMI tokens + EOF and ends in the initial open-code configuration; its step lemma holds from any open-code state (symbolic execution of the handler + induction). Programs sampled from the whole construct grammar must lex without error and end in the initial configuration (implementation and model, compared byte for byte).",
         "partial (sub-grammar): one production proved, the grammar-wide statement tested."),
 "C13": ("Theorems (no axioms, every state, both profiles): in the argument-value scanner '(' and nested ')' only move the parenthesis counter, ',' is text while the counter is non-zero and ends the argument at zero, ')' ends it only at zero; every argument-taking built-in pre-loads its parentheses. Delimiter, operator, integer-operand and gap positions are tested on sampled grammar programs with recorded positions.",
         "partial: step lemmas and tables proved; grammar-wide positions tested; expression gaps next to operands are whitespace-only in the sampler (documented limitation of the crate)."),
 "C14": ("Theorems (no axioms): the constructs of the C14 list pre-load an expectation mode for their mandatory delimiter; in an ExpectSymbol expectation with a different next character (or at end of input) the lexer records the matching MissingExpected error at the current position, adds a zero-width token of the expected type/channel and pops the mode (all states, release profile; debug via C19). Every single-delimiter deletion in sampled grammar programs is tested for exactly this error and token at the expected offset.",
         "partial: grammar-wide statement tested; the recovery step and pre-loads proved."),
 "C15": ("The statement is the Coq predicate Spec/Glue.compose_check (closed prefix per DESIGN 6.4, glue of results). Theorems (no axioms): for the production ';'* the run is computed in closed form for every length, every non-empty run of empty statements is a closed prefix and followed by any number of empty statements the result is exactly the glue (release profile); from any open-code state a ';' restores the statement-pending flag and leaves the rest of the configuration unchanged; a witness theorem shows the full statement false of the model on the known finding KF-1 (datalines look-behind after a statement comment). For arbitrary pairs the statement is evaluated: lex(A), lex(B), lex(A+B) by the implementation (debug, release) through the glue oracle and by the extracted compose_check on the model; prefixes are grammar programs and arbitrary strings the lexer itself leaves in the initial configuration, continuations include every trigger fragment.",
         "partial: one production proved, the all-pairs statement evaluated (not proved); known finding KF-1 is listed in known_findings.txt and printed as KNOWN-FINDING; the macro_sep feature build is covered through C18 only."),
 "C16": ("Theorems (no axioms, all inputs): keyword lookup after upper-casing, the macro keyword scanner, the statement look-ahead and the mnemonic recogniser are invariant under ASCII case change. Whole-lexer invariance is tested on random/extreme variants of every input and all (or sampled) 2^n variants of keyword/mnemonic/suffix templates.",
         "partial: whole-lexer statement tested, helpers proved."),
 "C17": ("Theorem C17_bom_transparent (no axioms): for every source not starting with U+FEFF, if the plain run returns within budget with the loop detector silent, the run on BOM+source returns the same tokens/lines/literals/errors shifted by (3 bytes, 1 char). Tie: plain and marked inputs through model and implementation, plus the direct pairwise oracle.",
         "conditional on C01 for the plain run; the model keeps offsets relative to the text start, validated by the marked-input correspondence stream."),
 "C18": ("Theorem C18_separator_guard (by computation over all token types): the only guard of both MacroSep insertion sites holds only after a default-channel token other than SEMI/MacroLabel/%then/%else and before a macro statement keyword or label. Equality of the two feature builds up to MacroSep tokens is tested on every input with both builds of the implementation and both model configurations.",
         "partial."),
 "C19": ("Theorems (no axioms): for every program over the primitives, and for the whole lexer on every source, a debug-profile run that returns with the loop detector silent is step for step the release-profile run (identical result record). Run-time part: debug/release x feature builds byte-identical on every input, 16-thread shuffled concurrent lexing vs sequential.",
         "partial: threads, allocator, toolchain channel, optimisation level are outside any model and covered by run-time comparison only; nightly toolchain path not exercised."),
 "C20": ("Theorems (no axioms): the MessagePack reader reads back every well-formed value the writer wrote (all sizes and nesting depths); for every token vector, error vector and literal buffer, decoding the bytes of (tokens, errors, bytes) through the attribute names of the Python Token/Error classes binds each attribute to the Rust field at the same position; the field lists generated from both sides (ResolvedTokenInfo/ErrorInfo of the lexer crate the binding links, token.py, error.py) agree name by name up to the one documented rename, and the Python enum modules list exactly the codes and case-normalised names of the linked crate's enums. Run time: the extension module is built from a scratch copy of the working tree; the enum modules its build script regenerates must be byte-identical to the committed ones; its output on grammar programs and sample files (must return) and on arbitrary strings is read with an independent MessagePack reader through the Python field order, judged by the Python-level contract (tiling by start/stop, line/column/end rules, enum membership, payload ranges), and read/re-written by the extracted Coq reader/writer (byte-identical).",
         "partial: the lexer inside the binding is the published registry crate (not modelled; panics/hangs on arbitrary strings are counted only); msgspec is not installed offline and is modelled by the positional reader; known finding KF-2 (registry crate's datalines4 terminator defect) is printed as KNOWN-FINDING."),
}


def main():
    import props
    props_list = [json.loads(l) for l in open(os.path.join(HERE, "properties.jsonl"))]
    checks = []
    for pid in sorted(P):
        if pid not in props.CHECKS:
            continue
        text, note = P[pid]
        checks.append({
            "property_id": pid, "quick_cmd": f"./check {pid} --tier quick", "thorough_cmd": f"./check {pid} --tier thorough",
            "evidence_file": f"evidence/{pid}.json", "replay_cmd_template": f"./check {pid} --replay {{path}}", "engine": "rocq-model",
            "level_claimed": {"category": "proof", "text": text, "design_ref": f"DESIGN.md §7 {pid}"},
            "level_note": COMMON_NOTE + note, "technique": TECH})
    claimed = {c["property_id"] for c in checks}
    m = {"version": 1, "setup_cmd": "./check --setup",
         "hooks": {"guard": "--cfg sas_lexer_verif", "enable": "RUSTFLAGS=\"--cfg sas_lexer_verif\" cargo build (done by tools/impl.py for harness/)",
                   "baseline_off_cmd": "cd /repo && cargo test --workspace --no-fail-fast --offline", "source_commits": ["627b963", "d772f4c"], "add_only": True},
         "engines": [{"name": "rocq-model", "path": "coq/", "serves_properties": sorted(claimed),
                      "kind_free_text": "Coq 8.16.1 development: generated tables (coq/Gen, regenerated from /repo on every run), hand-written executable model of the whole lexer (coq/Model, free monad over the primitive operations), proofs (coq/Proofs), property statements (coq/Properties), extraction to OCaml (modelrun) compared with implrun (harness/)"}],
         "checks": checks,
         "notes": "Properties are added as their theorems and correspondence streams are built; see DESIGN.md.",
         "not_applicable": [{"property_id": p["id"], "reason": "not claimed yet: its theorems are still being built (the oracle and correspondence machinery exists; see DESIGN.md §12)"}
                            for p in props_list if p["id"] not in claimed]}
    json.dump(m, open(os.path.join(HERE, "MANIFEST.json"), "w"), indent=1)
    print("claimed", sorted(claimed))


if __name__ == "__main__":
    main()
