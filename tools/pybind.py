"""C20 run-time part: build the extension module from a scratch copy of /repo's working tree,
call it, read its bytes with an independent MessagePack reader through the field order of the
Python classes, and judge the Python-level contract."""
import os, re, sys, struct, shutil, subprocess, tempfile, json, filecmp
from common import REPO, hexline, NCPU

WORKER = r'''
import sys, binascii, resource
resource.setrlimit(resource.RLIMIT_AS, (3 << 30, 3 << 30))
sys.path.insert(0, sys.argv[1])
import _sas_lexer_rust as m
out = sys.stdout
for line in sys.stdin:
    line = line.strip()
    src = binascii.unhexlify(line).decode("utf-8")
    try:
        b = m._lex_program_from_str(src)
        out.write("OK " + binascii.hexlify(b).decode() + "\n")
    except BaseException as e:
        out.write("EXC " + type(e).__name__ + " " + str(e)[:200].replace("\n", " ") + "\n")
    out.flush()
'''


class Binding:
    def __init__(self):
        self.dir = tempfile.mkdtemp(prefix="saslexer-c20-")
        self.enum_diff = []
        self.build_log = ""

    def build(self):
        src = os.path.join(self.dir, "tree")
        subprocess.run(["rsync", "-a", "--exclude", "target", "--exclude", ".git", REPO + "/", src + "/"], check=True)
        env = dict(os.environ, CARGO_NET_OFFLINE="true", CARGO_TARGET_DIR=os.path.join(self.dir, "target"))
        p = subprocess.run(["cargo", "build", "-p", "sas-lexer-py", "--release", "--offline"], cwd=src, env=env, capture_output=True, text=True, timeout=3000)
        self.build_log = (p.stdout + p.stderr)[-3000:]
        if p.returncode != 0:
            return False
        so = os.path.join(self.dir, "target", "release", "lib_sas_lexer_rust.so")
        if not os.path.exists(so):
            return False
        self.mod = os.path.join(self.dir, "mod")
        os.makedirs(self.mod, exist_ok=True)
        shutil.copy(so, os.path.join(self.mod, "_sas_lexer_rust.so"))
        with open(os.path.join(self.mod, "worker.py"), "w") as f:
            f.write(WORKER)
        # build.rs rewrote the three enum modules inside the scratch tree: they must equal the committed ones
        for name in ("token_type.py", "token_channel.py", "error_kind.py"):
            a = os.path.join(REPO, "src", "sas_lexer", name)
            b = os.path.join(src, "src", "sas_lexer", name)
            if not filecmp.cmp(a, b, shallow=False):
                la, lb = open(a).read().split("\n"), open(b).read().split("\n")
                k = next((i for i, (x, y) in enumerate(zip(la, lb)) if x != y), min(len(la), len(lb)))
                self.enum_diff.append(f"{name}: line {k + 1}: committed {la[k] if k < len(la) else None!r} vs generated {lb[k] if k < len(lb) else None!r}")
        return True

    def call(self, inputs, per_input_timeout=4):
        """-> list of ('ok', bytes) | ('exc', text) | ('crash', text) | ('hang', '')"""
        import select
        res = []
        todo = list(inputs)
        py = "python3"
        while todo:
            p = subprocess.Popen([py, os.path.join(self.mod, "worker.py"), self.mod], stdin=subprocess.PIPE, stdout=subprocess.PIPE, stderr=subprocess.DEVNULL)
            import threading

            def feed(proc=p, items=list(todo)):
                try:
                    for s_ in items:
                        proc.stdin.write((hexline(s_) + "\n").encode())
                    proc.stdin.close()
                except Exception:
                    pass
            th = threading.Thread(target=feed, daemon=True)
            th.start()
            got = 0
            dead = None
            while got < len(todo):
                r, _, _ = select.select([p.stdout], [], [], per_input_timeout)
                if not r:
                    dead = ("hang", "")
                    break
                ln = p.stdout.readline()
                if not ln:
                    p.wait()
                    dead = ("crash", f"rc={p.returncode}")
                    break
                ln = ln.decode().rstrip("\n")
                if ln.startswith("OK "):
                    res.append(("ok", bytes.fromhex(ln[3:])))
                    got += 1
                elif ln.startswith("EXC "):
                    res.append(("exc", ln[4:]))
                    got += 1
            if dead:
                res.append(dead)
                got += 1
            try:
                p.kill()
            except Exception:
                pass
            p.wait()
            todo = todo[got:]
        return res

    def close(self):
        shutil.rmtree(self.dir, ignore_errors=True)


# ------------------------------------------------------------------ an independent MessagePack reader (the subset in use, plus what msgspec would accept for it)
class WireError(Exception):
    pass


def mp_read(b, i=0):
    if i >= len(b):
        raise WireError("truncated")
    t = b[i]
    if t < 0x80:
        return t, i + 1
    if 0x90 <= t <= 0x9f:
        return _arr(b, i + 1, t - 0x90)
    if t == 0xc0:
        return None, i + 1
    if t in (0xc4, 0xc5, 0xc6):
        w = {0xc4: 1, 0xc5: 2, 0xc6: 4}[t]
        n = int.from_bytes(b[i + 1:i + 1 + w], "big")
        j = i + 1 + w
        if j + n > len(b):
            raise WireError("truncated bin")
        return bytes(b[j:j + n]), j + n
    if t == 0xcb:
        return ("f64", int.from_bytes(b[i + 1:i + 9], "big")), i + 9
    if t in (0xcc, 0xcd, 0xce, 0xcf):
        w = {0xcc: 1, 0xcd: 2, 0xce: 4, 0xcf: 8}[t]
        if i + 1 + w > len(b):
            raise WireError("truncated int")
        return int.from_bytes(b[i + 1:i + 1 + w], "big"), i + 1 + w
    if t == 0xdc:
        return _arr(b, i + 3, int.from_bytes(b[i + 1:i + 3], "big"))
    if t == 0xdd:
        return _arr(b, i + 5, int.from_bytes(b[i + 1:i + 5], "big"))
    raise WireError(f"unexpected tag 0x{t:02x} at {i}")


def _arr(b, i, n):
    out = []
    for _ in range(n):
        v, i = mp_read(b, i)
        out.append(v)
    return out, i


def py_names():
    """attribute names of the Python classes, in order (parsed from the package sources)"""
    import translate_wire
    tok = [a for a, _ in translate_wire.py_fields(os.path.join(REPO, "src", "sas_lexer", "token.py"), "Token")]
    err = [a for a, _ in translate_wire.py_fields(os.path.join(REPO, "src", "sas_lexer", "error.py"), "Error")]
    return tok, err


def py_enums():
    import translate_wire
    P = os.path.join(REPO, "src", "sas_lexer")
    return (dict(translate_wire.py_enum(os.path.join(P, "token_type.py"), "TokenType")),
            dict(translate_wire.py_enum(os.path.join(P, "token_channel.py"), "TokenChannel")),
            dict(translate_wire.py_enum(os.path.join(P, "error_kind.py"), "ErrorKind")))


def decode_result(b, tok_names, err_names):
    """what lexer.py's Decoder(tuple[list[Token], list[Error], bytes]) yields: dicts by attribute name"""
    v, i = mp_read(b)
    if i != len(b):
        raise WireError("trailing bytes")
    if not isinstance(v, list) or len(v) != 3 or not isinstance(v[0], list) or not isinstance(v[1], list) or not isinstance(v[2], bytes):
        raise WireError("top level is not (list, list, bytes)")
    toks, errs = [], []
    for t in v[0]:
        if not isinstance(t, list) or len(t) != len(tok_names):
            raise WireError(f"token with {len(t) if isinstance(t, list) else '?'} fields")
        toks.append(dict(zip(tok_names, t)))
    for e in v[1]:
        if not isinstance(e, list) or len(e) != len(err_names):
            raise WireError("error with wrong field count")
        errs.append(dict(zip(err_names, e)))
    return toks, errs, v[2]


def canon(v):
    """same text as the OCaml driver's mp_str"""
    if v is None:
        return "N"
    if isinstance(v, bytes):
        return "B" + v.hex()
    if isinstance(v, tuple):
        return "F" + str(v[1])
    if isinstance(v, list):
        return "[" + ",".join(canon(x) for x in v) + "]"
    return "I" + str(v)


# ------------------------------------------------------------------ the Python-level contract
def contract(source, toks, errs, lit, enums):
    tt, ch, ek = enums
    out = []
    n = len(source)
    bom = 1 if source.startswith("﻿") else 0
    nl = [i for i, c in enumerate(source) if c == "\n"]
    import bisect

    def line_col(pos):
        k = bisect.bisect_left(nl, pos)
        ls = nl[k - 1] + 1 if k > 0 else bom
        return k + 1, (pos - ls if pos >= ls else None)
    if not toks:
        return ["no tokens"]
    for i, t in enumerate(toks):
        for f in ("token_index", "start", "stop", "line", "column", "end_line", "end_column"):
            if not isinstance(t[f], int):
                return [f"token {i}: {f} is {t[f]!r}"]
        if t["channel"] not in ch:
            out.append(f"token {i}: channel {t['channel']} is not a member of TokenChannel")
        if t["token_type"] not in tt:
            out.append(f"token {i}: token_type {t['token_type']} is not a member of TokenType")
        if t["token_index"] != i:
            out.append(f"token {i}: token_index {t['token_index']}")
        if not (0 <= t["start"] <= t["stop"] <= n):
            out.append(f"token {i}: start/stop {t['start']}/{t['stop']} outside the source (len {n})")
            continue
        want_start = bom if i == 0 else toks[i - 1]["stop"]
        if t["start"] != want_start:
            out.append(f"token {i}: start {t['start']} but the previous token stopped at {want_start}: source[start:stop] does not tile")
        l, c = line_col(t["start"])
        if (t["line"], t["column"]) != (l, c):
            out.append(f"token {i} ({tt.get(t['token_type'])}): line/column {(t['line'], t['column'])} but the text says {(l, c)}")
        if t["stop"] == t["start"]:
            el, ec = l, c
        else:
            el, ec = line_col(t["stop"] - 1)
            ec = None if ec is None else ec + 1
        if (t["end_line"], t["end_column"]) != (el, ec):
            out.append(f"token {i} ({tt.get(t['token_type'])}): end_line/end_column {(t['end_line'], t['end_column'])} but the text says {(el, ec)}")
        p = t["payload"]
        if isinstance(p, list):
            if len(p) != 2 or not all(isinstance(x, int) for x in p) or not (0 <= p[0] <= p[1] <= len(lit)):
                out.append(f"token {i}: payload range {p} does not slice the literal buffer (len {len(lit)})")
        elif not (p is None or isinstance(p, int) or isinstance(p, tuple)):
            out.append(f"token {i}: payload {p!r}")
    last = toks[-1]
    if tt.get(last["token_type"]) != "EOF" or last["start"] != n or last["stop"] != n:
        out.append(f"last token is {tt.get(last['token_type'])} at {last['start']}..{last['stop']}, source has {n} characters")
    pos = 0
    for i, t in enumerate(toks):
        p = t["payload"]
        if isinstance(p, list) and len(p) == 2:
            if p[0] != pos:
                out.append(f"token {i}: payload range {p} leaves a gap in the literal buffer at {pos}")
            pos = max(pos, p[1])
    for k, e in enumerate(errs):
        if e["error_kind"] not in ek:
            out.append(f"error {k}: error_kind {e['error_kind']} is not a member of ErrorKind")
        if not isinstance(e["at_char_offset"], int) or not (0 <= e["at_char_offset"] <= n):
            out.append(f"error {k}: at_char_offset {e['at_char_offset']}")
            continue
        l, c = line_col(e["at_char_offset"])
        if (e["on_line"], e["at_column"]) != (l, c):
            out.append(f"error {k}: on_line/at_column {(e['on_line'], e['at_column'])} but the text says {(l, c)}")
        lt = e["last_token_index"] if "last_token_index" in e else None
        if lt is not None and not (isinstance(lt, int) and 0 <= lt < len(toks)):
            out.append(f"error {k}: last_token_index {lt}")
        if len(source.encode("utf-8")[: e["at_byte_offset"]].decode("utf-8", errors="ignore")) != e["at_char_offset"] and e["at_byte_offset"] <= len(source.encode("utf-8")):
            out.append(f"error {k}: byte offset {e['at_byte_offset']} and char offset {e['at_char_offset']} disagree")
    return out
