"""Translator part for C20 (DESIGN G7): field orders and enum tables on both sides of the binding.
Reads the lexer crate that sas-lexer-py *links* (the registry crate named in its Cargo.toml and
resolved through Cargo.lock, or the workspace crate if the dependency is a path/workspace one),
the binding's lib.rs, and the Python package sources. Emits coq/Gen/WireFields.v."""
import os, re, glob
from common import REPO
from translate import TranslateError, strip_comments, enum_body, read, coq_string

PY = os.path.join(REPO, "src", "sas_lexer")
BIND = os.path.join(REPO, "crates", "sas-lexer-py")


def linked_crate():
    """-> (source dir of the lexer crate the binding links, version string, is_workspace)"""
    toml = read(os.path.join(BIND, "Cargo.toml"))
    m = re.search(r"^\[dependencies\](.*?)(^\[|\Z)", toml, re.S | re.M)
    if not m:
        raise TranslateError("sas-lexer-py/Cargo.toml: no [dependencies]")
    dep = re.search(r"^sas-lexer\s*=\s*(.+)$", m.group(1), re.M)
    if not dep:
        raise TranslateError("sas-lexer-py does not depend on sas-lexer")
    spec = dep.group(1)
    if "path" in spec or "workspace" in spec:
        return os.path.join(REPO, "crates", "sas-lexer", "src"), "workspace", True
    feats = re.findall(r'"([^"]+)"', (re.search(r"features\s*=\s*\[([^\]]*)\]", spec) or [None, ""])[1])
    if "serde" not in feats:
        raise TranslateError("the binding no longer enables the serde feature of sas-lexer")
    lock = read(os.path.join(REPO, "Cargo.lock"))
    vers = re.findall(r'\[\[package\]\]\nname = "sas-lexer"\nversion = "([^"]+)"\nsource = "registry', lock)
    if len(vers) != 1:
        raise TranslateError(f"Cargo.lock: expected one registry sas-lexer, found {vers}")
    cands = glob.glob(os.path.expanduser(f"~/.cargo/registry/src/*/sas-lexer-{vers[0]}/src"))
    if not cands:
        raise TranslateError(f"registry source of sas-lexer {vers[0]} not found")
    return cands[0], vers[0], False


def struct_fields(src, name):
    m = re.search(r"((?:#\[[^\]]*\]\s*)*)pub struct " + name + r"\s*\{([^}]*)\}", src)
    if not m:
        raise TranslateError(f"struct {name} not found")
    attrs = m.group(1)
    if "Serialize" not in attrs:
        raise TranslateError(f"struct {name} is not Serialize")
    if re.search(r"serde\((?!.*untagged)", attrs) or "#[serde" in m.group(2):
        raise TranslateError(f"struct {name} carries serde attributes the wire model does not know")
    return re.findall(r"(?:pub\s+)?(\w+)\s*:\s*([^,\n]+)", m.group(2))


def py_fields(path, cls):
    s = read(path)
    m = re.search(r"class " + cls + r"\(Struct,([^)]*)\):(.*)", s, re.S)
    if not m:
        raise TranslateError(f"{path}: class {cls}(Struct, ...) not found")
    if "array_like=True" not in m.group(1):
        raise TranslateError(f"{cls} is not an array_like Struct")
    body = re.sub(r'""".*?"""', "", m.group(2), flags=re.S)
    return re.findall(r"^\s{4}(\w+)\s*:\s*(.+)$", body, re.M)


def py_enum(path, cls):
    s = read(path)
    m = re.search(r"class " + cls + r"\(IntEnum\):\n((?:\s{4}\w+ = \d+\n)+)", s)
    if not m:
        raise TranslateError(f"{path}: class {cls}(IntEnum) not found")
    return [(int(v), n) for n, v in re.findall(r"\s{4}(\w+) = (\d+)", m.group(1))]


def norm(n):
    return n.replace("_", "").upper()


def rows(pairs):
    return "[" + "; ".join(f"({c}, {coq_string(norm(n))})" for c, n in pairs) + "]"


def generate():
    src_dir, ver, is_ws = linked_crate()
    buf = strip_comments(read(os.path.join(src_dir, "lexer", "buffer.rs")))
    err = strip_comments(read(os.path.join(src_dir, "lexer", "error.rs")))
    tts = strip_comments(read(os.path.join(src_dir, "lexer", "token_type.rs")))
    chs = strip_comments(read(os.path.join(src_dir, "lexer", "channel.rs")))
    rs_tok = struct_fields(buf, "ResolvedTokenInfo")
    rs_err = struct_fields(err, "ErrorInfo")
    # Payload: untagged, variants in this order and shape
    pm = re.search(r"((?:#\[[^\]]*\]\s*)*)pub enum Payload\s*\{([^}]*)\}", buf)
    if not pm or "untagged" not in pm.group(1):
        raise TranslateError("Payload is not an untagged serde enum")
    pv = re.findall(r"(\w+)(?:\(([^)]*)\))?\s*,", pm.group(2))
    if [(a, re.sub(r"\s", "", b)) for a, b in pv] != [("None", ""), ("Integer", "u64"), ("Float", "f64"), ("StringLiteral", "u32,u32")]:
        raise TranslateError(f"Payload variants changed: {pv}")
    if not re.search(r"pub struct TokenIdx\(\s*(?:pub(?:\(crate\))?\s+)?u32\s*\)", buf):
        raise TranslateError("TokenIdx is no longer a u32 newtype")
    for name, text in (("TokenType", tts), ("TokenChannel", chs), ("ErrorKind", err)):
        if not re.search(r"Serialize_repr[^\]]*\)\]\s*(?:#\[[^\]]*\]\s*)*pub enum " + name, text, re.S) and "Serialize_repr" not in text:
            raise TranslateError(f"{name} is not serialized through serde_repr")
    # enums of the linked crate
    body = enum_body(tts, "TokenType")
    tt = [m.group(1) for m in re.finditer(r"#\[[^\]]*\]|([A-Za-z_][A-Za-z0-9_]*)\s*(?:=\s*\d+\s*)?,", body) if m.group(1)]
    ek = [(int(c), n) for n, c in re.findall(r"([A-Za-z_][A-Za-z0-9_]*)\s*=\s*(\d+)\s*,", enum_body(err, "ErrorKind"))]
    ch = [m.group(1) for m in re.finditer(r"(?:#\[[^\]]*\]\s*)*([A-Z_]+)\s*,", enum_body(chs, "TokenChannel"))]
    # the binding's tuple
    lib = strip_comments(read(os.path.join(BIND, "src", "lib.rs")))
    if not re.search(r"to_vec\(&\(\s*tok_vec,\s*errors,\s*Bytes::new\(buffer\.string_literals_buffer\(\)\.as_bytes\(\)\),?\s*\)\)", lib):
        raise TranslateError("lib.rs no longer serializes (tok_vec, errors, bytes)")
    if "into_resolved_token_vec()" not in lib:
        raise TranslateError("lib.rs no longer takes the tokens from into_resolved_token_vec")
    lex_py = read(os.path.join(PY, "lexer.py"))
    if "Decoder(tuple[list[Token], list[Error], bytes])" not in lex_py:
        raise TranslateError("lexer.py decoder shape changed")
    py_tok = py_fields(os.path.join(PY, "token.py"), "Token")
    py_err = py_fields(os.path.join(PY, "error.py"), "Error")
    py_tt = py_enum(os.path.join(PY, "token_type.py"), "TokenType")
    py_ch = py_enum(os.path.join(PY, "token_channel.py"), "TokenChannel")
    py_ek = py_enum(os.path.join(PY, "error_kind.py"), "ErrorKind")
    o = ["(* GENERATED by tools/translate_wire.py - do not edit *)",
         f"(* lexer crate linked by sas-lexer-py: {ver} ({'workspace crate' if is_ws else src_dir}) *)",
         "From Coq Require Import NArith List String Bool.\nImport ListNotations.\nOpen Scope N_scope.\n"]
    sl = lambda xs: "[" + "; ".join(coq_string(x) for x in xs) + "]%string"
    o.append(f"Definition LINKED_IS_WORKSPACE : bool := {'true' if is_ws else 'false'}.")
    o.append(f"Definition RS_TOKEN_FIELDS : list string := {sl([a for a, _ in rs_tok])}.")
    o.append(f"Definition RS_ERROR_FIELDS : list string := {sl([a for a, _ in rs_err])}.")
    o.append(f"Definition PY_TOKEN_FIELDS : list string := {sl([a for a, _ in py_tok])}.")
    o.append(f"Definition PY_ERROR_FIELDS : list string := {sl([a for a, _ in py_err])}.")
    o.append('(* the one documented rename between the two sides *)')
    o.append('Definition FIELD_ALIASES : list (string * string) := [("last_token", "last_token_index")]%string.')
    o.append(f"Definition LINKED_TOKEN_TYPES : list (N * string) := {rows(list(enumerate(tt)))}%string.")
    o.append(f"Definition PY_TOKEN_TYPES : list (N * string) := {rows(py_tt)}%string.")
    o.append(f"Definition LINKED_CHANNELS : list (N * string) := {rows(list(enumerate(ch)))}%string.")
    o.append(f"Definition PY_CHANNELS : list (N * string) := {rows(py_ch)}%string.")
    o.append(f"Definition LINKED_ERROR_KINDS : list (N * string) := {rows(sorted(ek))}%string.")
    o.append(f"Definition PY_ERROR_KINDS : list (N * string) := {rows(py_ek)}%string.")
    meta = {"linked_crate": ver, "linked_is_workspace": is_ws, "rs_token_fields": [a for a, _ in rs_tok], "py_token_fields": [a for a, _ in py_tok],
            "rs_error_fields": [a for a, _ in rs_err], "py_error_fields": [a for a, _ in py_err],
            "py_token_field_types": [b.strip() for _, b in py_tok], "py_error_field_types": [b.strip() for _, b in py_err],
            "token_types": len(tt), "error_kinds": len(ek)}
    return {"WireFields.v": "\n".join(o) + "\n"}, meta
