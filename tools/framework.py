"""Run bookkeeping: violations, replay files, known findings, evidence."""
import os, sys, json, time, hashlib, re
from common import VERIF, BUILD, log

REPLAYS = os.path.join(BUILD, "replays")
EVIDENCE = os.path.join(VERIF, "evidence")
KNOWN = os.path.join(VERIF, "known_findings.txt")

TRUSTED_BASE = [
    "Coq 8.16.1 kernel (coqc, full .vo builds; vm_compute used for reflection and cases.v; no native_compute)",
    "axioms: none unless listed under coverage.axioms (Print Assumptions of every property theorem, allow-listed)",
    "tools/translate.py (reads enums, keyword derive rule, tables from /repo's working tree; fails loudly)",
    "extraction: ExtrOcamlBasic only, no Extract Constant; OCaml 4.13.1 ocamlopt; ocaml/driver*.ml",
    "correspondence harness: harness/src/main.rs (implrun), tools/*.py comparison and generators",
    "modelled, not verified: lexical 7.0.2 parse_partial, encoding ISO-8859-1, phf, unicode-ident, char::is_whitespace, bit-vec, Vec/String",
]


def load_known():
    """finding: property=Cxx id=KF-n class=<predicate> witness=<hex> - text   |   fixed: property=Cxx <commit> text"""
    out = []
    if not os.path.exists(KNOWN):
        return out
    for ln in open(KNOWN, encoding="utf-8"):
        ln = ln.strip()
        if ln.startswith("finding:"):
            m = re.match(r"finding:\s*property=(\w+)\s+id=(\S+)\s+class=(\S+)\s+witness=(\S*)\s*[-—]*\s*(.*)", ln)
            if m:
                out.append({"property": m.group(1), "id": m.group(2), "class": m.group(3), "witness": m.group(4), "text": m.group(5)})
    return out


class Run:
    def __init__(self, prop, tier, seed):
        self.prop = prop
        self.tier = tier
        self.seed = seed
        self.t0 = time.time()
        self.violations = []      # dicts
        self.known_hits = {}      # id -> text
        self.cov = {"evaluations": 0, "distinct_nontrivial": 0, "samples": [], "streams": {}, "trusted_base": list(TRUSTED_BASE)}
        self.assumptions = []
        self.known = [k for k in load_known() if k["property"] == prop]
        self._distinct = set()
        self.level = "proof"

    # ---- coverage
    def count(self, stream, n, distinct_keys=()):
        self.cov["evaluations"] += n
        st = self.cov["streams"].setdefault(stream, {"inputs": 0})
        st["inputs"] += n
        for k in distinct_keys:
            self._distinct.add(k)

    def sample(self, x):
        if len(self.cov["samples"]) < 8:
            self.cov["samples"].append(x if isinstance(x, (dict, list)) else str(x)[:300])

    # ---- violations
    def known_class(self, src, message):
        try:
            import known
        except ImportError:
            return None
        for k in self.known:
            f = getattr(known, k["class"], None)
            if f and f(src, message):
                return k
        return None

    def violation(self, what, detail, src=None, extra=None, found_input=True):
        """what: short kind; detail: message; src: failing input (str) if any"""
        if src is not None:
            k = self.known_class(src, detail)
            if k:
                self.known_hits[k["id"]] = k["text"] or detail
                return
        self.violations.append({"what": what, "detail": detail, "input": src, "extra": extra, "found_input": found_input and src is not None})

    def finish(self):
        wall = time.time() - self.t0
        os.makedirs(EVIDENCE, exist_ok=True)
        os.makedirs(REPLAYS, exist_ok=True)
        for kid, text in self.known_hits.items():
            print(f"KNOWN-FINDING: property={self.prop} {kid} {text}")
        self.cov["distinct_nontrivial"] = max(self.cov.get("distinct_nontrivial", 0), len(self._distinct))
        lines = []
        rc = 0
        if self.violations:
            rc = 1
            # one replay file per run, the first violation with a concrete input first
            vs = sorted(self.violations, key=lambda v: (not v["found_input"], len(v["input"] or "")))
            v = vs[0]
            h = hashlib.sha256((self.prop + repr(v["input"]) + v["detail"]).encode()).hexdigest()[:12]
            path = os.path.join(REPLAYS, f"{self.prop}-{h}.json")
            rep = {"property": self.prop, "tier": self.tier, "seed": self.seed, "what": v["what"], "detail": v["detail"],
                   "input": v["input"], "input_hex": (v["input"].encode("utf-8").hex() if v["input"] is not None else None),
                   "extra": v["extra"], "all": [{k: (x[k] if k != "input" else (x[k][:2000] if x[k] else None)) for k in ("what", "detail", "input")} for x in vs[:50]]}
            with open(path, "w", encoding="utf-8") as f:
                json.dump(rep, f, indent=1, ensure_ascii=False)
            tail = "" if v["found_input"] else " no-failing-input-found"
            lines.append(f"VIOLATION property={self.prop} replay={path}{tail}")
        ev = {"property_id": self.prop, "tier": self.tier, "seed": self.seed, "level": self.level,
              "coverage": self.cov, "assumptions": self.assumptions, "wall_s": round(wall, 2), "violations": len(self.violations)}
        if not self.cov["samples"]:
            self.cov["samples"] = ["(no samples)"]
        with open(os.path.join(EVIDENCE, f"{self.prop}.json"), "w", encoding="utf-8") as f:
            json.dump(ev, f, indent=1, ensure_ascii=False)
        for ln in lines:
            print(ln)
        log(f"[{self.prop}] {self.tier} done in {wall:.1f}s: evaluations={self.cov['evaluations']} violations={len(self.violations)} known={len(self.known_hits)}")
        return rc


def shrink(src, still_fails, budget=300):
    """delta debugging on characters: remove chunks while the predicate keeps failing"""
    cur = src
    n = 2
    steps = 0
    while len(cur) >= 2 and steps < budget:
        chunk = max(1, len(cur) // n)
        reduced = False
        i = 0
        while i < len(cur) and steps < budget:
            cand = cur[:i] + cur[i + chunk:]
            steps += 1
            if cand != cur and still_fails(cand):
                cur = cand
                reduced = True
            else:
                i += chunk
        if not reduced:
            if chunk == 1:
                break
            n = min(len(cur), n * 2)
    return cur
