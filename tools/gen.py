"""Input generators (DESIGN.md §4.4). All random choices come from one splitmix64 state."""
import os, re, glob
from common import Rng, VERIF, REPO, CRATE

FR = [" ", "\n", ";", "a", "b1", "_x", "1", "2.5", "1e3", "0fx", "'s'", "'s''t'", "\"d\"", "\"d\"\"e\"", "\"", "'", "&", "&&", "&a", "&a.", "&&a&b..", "%", "%m", "%m(", "(", ")", ",", "=", "/", "/*c*/", "/*", "*", "* c;", "%*c;", "%let ", "%let a=", "%put ", "%do", "%do ", "%to ", "%by ", "%end", "%end;", "%if ", "%then ", "%else ", "%macro ", "%macro m(", "%mend", "%mend;", "%str(", "%nrstr(", "%eval(", "%sysevalf(", "%scan(", "%substr(", "%sysfunc(", "%qsysfunc(f(", "%upcase(", "%index(", "%local ", "%global ", "%goto ", "%copy ", "%syscall ", "%while(", "%until(", "%return", "%abort ", "%'", "%\"", "%%", "%(", "%)", "eq", " ne ", " and ", "or", "not ", "in", "#", "+", "-", "<=", ">=", "^=", "~", "datalines;", "cards4;", ";;;;", "$f1.", "$", "'a'x", "'4142'x", "\"4142\"x", "'a'd", "'a'dt", "\"a\"n", "\u00e9", "\u044b", "\U0001F600", "\u2003", "\ufeff", "x", ":", "%lbl:", ".", "..", "|", "||", "!", "!!", "<>", "><", "=*", "@", "?", "{", "}", "[", "]", "readonly", "%local / ", "%sysmexecdepth", "%include ", "%run", "%list", "%window ", "%input ", "%sysexec ", "%symdel ", "%sysmacdelete ", "%kverify(", "%compstor(", "%validchs(", "%unquote(", "%bquote(", "%superq(", "%nrbquote(", "%cmpres(", "%left(", "%qscan(", "%ksubstr(", "%length(", "%datatyp(", "9999999999999999999999", "ffx", "1ex", "1e", "1.e5", ".5", "1.", "12x", "0123456789abcdefx", "%then", "%else", "%do;", "%do %while(", "%do %until(", "%do i=1 %to 3;", "a=", "%m(a=", "%m(a", "%m (", "%m /*c*/ (", "%m :", "\t", "\r\n",
      # additions: more branch triggers
      "\u00ac", "\u00a6", "\u00a6\u00a6", "\u2218", "\u00ac=", "^", "**", "<", ">", "%^", "%~=", "%=", " ge ", "GT", "Le", "lt", "aNd ", "NOT", "oR", "iN ", " eq", "%sysrput ", "%syslput ", "%display ", "%sysmstoreclear", "%symexist(", "%sysget(", "%quote(", "%nrquote(", "%qupcase(", "%klength(", "%trim(", "%qktrim(", "%lowcase(", "%qlowcase(", "%verify(", "%sysmacexist(", "%sysprod(", "%qkscan(", "%qksubstr(", "%kindex(", "%substr(a,", "%scan(a,1", "%eval(1", "%eval(1+", "\"%eval(1", "%m(a=1,b", "%m(&a", "%m(%n", "%m(a b", "%m(a /*c*/ =", "%macro m(a", "%macro m(a=", "%macro m(a,", "%macro m/", "%macro 1", "%macro m(1", "lines;", "LINES4 ;", "Cards ;", "datalines4;\nab\n;", "$abc12.3", "$12.", "$\u044b1.", "1.5e+", "1e-5", "0x", "1ffffffffffffffffx", "1ffffffffffffffff.8x", "'+1'x", "'4 1'x", "'41,42'x", "\"41\"X", "'a'B", "'a'T", "'a'N", "'a'DT", "\"a\"dT", "\"&a\"d", "\"&a\"x", "\"%m\"", "\"%let\"", "\"% \"\"x\"", "%str(%%a)", "%str(/%%)", "%nrstr(&a%b)", "%str(a(b)c)", "%str(&a)", "%str(%m)", "%str(a\nb)", "%str('a')", "&a&b", "&&&a", "&&&&a", "&a..b", "&a.&b.", "&\u044b", "&1", "%1", "%\u044b", "%\u044b(", "% ", "%;", "%goto %;", "%do %m(a)=1 %to 3;", "%do %m %n=1 %to 2;", "%do%do %while(", "%local a % b;", "* c", "%* c", "%*'a;b';", "* %m;", "*;", "%macro m; * c; %mend;", "%macro m; * %n; %mend;", "a*b;", "a;*b;", "%if a %then %do; * c; %end;", "%put a;b", "%put 'a' \"b\" /*c*/ &d %e;", "%let a=b/c;", "%let a=\n;", "%let a=&&;", "%let &a=1;", "%let %m=1;", "%let =1;", "%let a 1;", "%global a b;", "%global / readonly a=1;", "%local/readonly &a=1;", "%copy m / x;", "%copy m x;", "%syscall f(a,b);", "%syscall (a);", "%sysfunc(f(1,2),b.)", "%sysfunc((1))", "%sysfunc(f 1)", "%sysevalf(1.5+2,ceil)", "%sysevalf(1e3)", "%eval(1 2=12)", "%eval(1/*c*/2)", "%eval(0fx+1)", "%eval((1+2)*3)", "%eval(a eq)", "%eval( = 1)", "%eval(a in b)", "%eval(a # b)", "%eval(&a ne %m)", "%eval('a' = \"b\")", "%eval(1 %then)", "%eval(1;", "%if 1 %then a; %else b;", "%if &a=1 and &b ne 2 %then", "%do i=1 %to 10 %by 2;", "%do i=1 %to &n;", "%do %until(&a=1);", "%do %while(%m(1));", "%end", "%return;", "%abort cancel;", "%window a;", "%m(,)", "%m(a=,b=)", "%m((a,b),c)", "%m(a=(1,2))", "%m('a,b')", "%m(\"a,b\")", "%m(%str(a,b))", "%m(%n(1),2)", "%m(a\n,b)", "%m(/*c*/a/*d*/=1)", "%m(a=1", "%m(a,", "%m(\n", "%cmpres(a, b)", "%upcase(a,b)", "%scan(&a,1,%str( ))", "%substr(a,1,2)", "%qsubstr(a,1+1)", "%kverify(a,b)", "%compstor(a=1)", "%superq(a)", "%unquote(%m)", "x = %m y;", "x = %m(1) y;", "x %m: y", "%a: %b: c", "data a; %m; run;", "%macro m(a,b=1)/store; %put &a; %mend m;", "%macro m; %macro n; %mend; %mend;", "%mend;", "%end;", "\r", "\u00a0", "\u3000", "\u0085", "\x0b", "\x0c", "\x1c", "\x00", "\x7f", "`", "\\", "\u00b7", "\u0300", "a\u0300", "\u2028"]

TRIGGER_ALPHABET = [" ", "\n", ";", "a", "x", "e", "1", ".", "'", "\"", "&", "%", "(", ")", ",", "=", "/", "*", "d", "t", "-", "<", "\u044b", "$"]

OPEN_ATOMS = [" ", "  ", "\n", "\t", "\r\n", ";", "a", "b1", "_x", "data", "Run", "SET", "proc", "sql", "x", "e", "d", "dt", "n", "t", "b", "1", "12", "2.5", ".5", "1.", "1e3", "1E-5", "1e", "1e+", "1.e5", "0fx", "0FX", "ffx", "12x", "0x", "1ex", "9999999999999999999999", "18446744073709551615", "18446744073709551616", "0ffffffffffffffffx", "1ffffffffffffffffx", "0123456789abcdefx", "00000000000000000001", "1.7976931348623157e308", "1e309", "4.9e-324", "1e-400", "0.1", "123456789012345678901234567890.5", "'s'", "'s''t'", "''", "'a;b'", "'a'x", "'4142'x", "'41,42'X", "'4 1'x", "'+1'x", "'a'd", "'a'dt", "'a'DT", "'a'n", "'a't", "'a'b", "'a\nb'", "'", "\"d\"", "\"d\"\"e\"", "\"\"", "\"a\"n", "\"4142\"x", "\"zz\"x", "\"a\"dt", "\"a\nb\"", "\"", "\"a'b\"", "'a\"b'", "/*c*/", "/* c\n d */", "/*", "/**/", "/", "*", "**", "* c;", "* c\n d;", "*;", "* c", "(", ")", "{", "}", "[", "]", "!", "!!", "\u00a6", "\u00a6\u00a6", "|", "||", "\u00ac", "^", "~", "\u2218", "\u00ac=", "^=", "~=", "\u2218=", "+", "-", "<", "<=", "<>", ">", ">=", "><", "=", "=*", ".", ",", ":", "$", "$f1.", "$abc12.3", "$12.", "$.", "$a", "$\u044b1.", "@", "#", "?", "&", "&&", "& ", "&1", "%", "% ", "%1", "%;", "%%", "\u00e9", "\u044b\u044b", "\U0001F600", "\u2003", "\u00a0", "\u3000", "\u0085", "`", "\\", "\x00", "\x7f", "\u00b7", "a\u0300", "datalines;", "DATALINES ;", "cards;", "lines;", "datalines4;", "Cards4 ;", "LINES4;", "datalines", "datalines x;", ";;;;", ";;", "\n1 2\n3 4\n;", "ab\n;", "_all_", "_NULL_", "corr", "CORRESPONDING", "exec", "execute", "input", "put", "eq", "ne", "and", "or", "not", "in", "eqt", "ge", "lt"]


def fragments(rng, n, maxlen=8, table=None):
    table = table or FR
    out = []
    for _ in range(n):
        k = 1 + rng.below(maxlen)
        out.append("".join(rng.choice(table) for _ in range(k)))
    return out


def open_code(rng, n, maxlen=10):
    return [s for s in fragments(rng, n * 2, maxlen, OPEN_ATOMS) if is_macro_free(s)][:n]


_NS_CACHE = {}


def is_macro_free(s, is_name_start=None):
    """no '%' followed by a name start or '*', no '&' run followed by a name start.
    Name start approximated with str.isidentifier start unless a predicate is supplied."""
    f = is_name_start or (lambda c: c == "_" or c.isidentifier())
    n = len(s)
    i = 0
    while i < n:
        c = s[i]
        if c == "%":
            if i + 1 < n and (s[i + 1] == "*" or f(s[i + 1])):
                return False
        elif c == "&":
            j = i
            while j < n and s[j] == "&":
                j += 1
            if j < n and f(s[j]):
                return False
            i = j
            continue
        i += 1
    return True


def exhaustive_small(alphabet, maxlen):
    out = [""]
    layer = [""]
    for _ in range(maxlen):
        layer = [p + a for p in layer for a in alphabet]
        out.extend(layer)
    return out


def unicode_stress(rng, n):
    """fragments with multi-byte replacements and injected line breaks"""
    subs = ["\u00e9", "\u044b", "\u4e2d", "\U0001F600", "\u2003", "\u00a0"]
    nls = ["\n", "\r\n", "\r", "\n\n"]
    out = []
    base = fragments(rng, n, 6)
    for s in base:
        chars = list(s)
        for _ in range(1 + rng.below(3)):
            pos = rng.below(len(chars) + 1)
            if rng.chance(1, 2):
                chars.insert(pos, rng.choice(nls))
            else:
                if chars and rng.chance(1, 2) and pos < len(chars) and chars[pos].isalpha():
                    chars[pos] = rng.choice(subs[:4])
                else:
                    chars.insert(pos, rng.choice(subs))
        out.append("".join(chars))
    return out


def lf_everywhere(template):
    return [template[:i] + "\n" + template[i:] for i in range(len(template) + 1)]


def case_variants(rng, s, k=3):
    out = [s.upper() if False else "".join(c.upper() if "a" <= c <= "z" else c for c in s),
           "".join(c.lower() if "A" <= c <= "Z" else c for c in s)]
    for _ in range(k):
        out.append("".join((c.swapcase() if (("a" <= c <= "z") or ("A" <= c <= "Z")) and rng.chance(1, 2) else c) for c in s))
    return out


def all_case_variants(word, limit=4096, rng=None):
    letters = [i for i, c in enumerate(word) if c.isascii() and c.isalpha()]
    n = len(letters)
    total = 1 << n
    idxs = range(total) if total <= limit else [rng.below(total) for _ in range(limit)]
    out = []
    for m in idxs:
        cs = list(word.lower())
        for bit, i in enumerate(letters):
            if (m >> bit) & 1:
                cs[i] = cs[i].upper()
        out.append("".join(cs))
    return out


# ------------------------------------------------------------------ corpus


def rust_string_literals(path):
    """string literals of a Rust source file (normal and raw), unescaped approximately"""
    txt = open(path, encoding="utf-8").read()
    out = []
    for m in re.finditer(r'r(#*)"(.*?)"\1', txt, re.S):
        out.append(m.group(2))
    for m in re.finditer(r'(?<![r#\w])"((?:[^"\\]|\\.)*)"', txt, re.S):
        s = m.group(1)
        try:
            s = re.sub(r"\\\n\s*", "", s)
            s = (s.replace("\\n", "\n").replace("\\t", "\t").replace("\\r", "\r").replace('\\"', '"').replace("\\'", "'").replace("\\\\", "\\").replace("\\0", "\0"))
            s = re.sub(r"\\u\{([0-9a-fA-F]+)\}", lambda k: chr(int(k.group(1), 16)), s)
        except Exception:
            continue
        out.append(s)
    seen = set()
    res = []
    for s in out:
        if s not in seen and len(s) < 4000:
            seen.add(s)
            res.append(s)
    return res


def regression_corpus():
    out = []
    for f in sorted(glob.glob(os.path.join(VERIF, "corpus", "regressions", "*.hex"))):
        for ln in open(f):
            ln = ln.split("#")[0].strip()
            if ln or True:
                try:
                    out.append(bytes.fromhex(ln).decode("utf-8"))
                except Exception:
                    pass
    return out


def sample_files():
    out = []
    for f in sorted(glob.glob(os.path.join(CRATE, "src", "lexer", "tests", "samples", "*.sas"))):
        try:
            out.append(open(f, encoding="utf-8").read())
        except Exception:
            pass
    return out


def test_strings(limit=None):
    p = os.path.join(CRATE, "src", "lexer", "tests", "test_inline_strings.rs")
    if not os.path.exists(p):
        return []
    xs = rust_string_literals(p)
    return xs[:limit] if limit else xs


def truncations(s, step=1):
    return [s[:i] for i in range(0, len(s) + 1, step)]


CONTEXTS = ["", "%m(", "%m(a=", "%let a=", "%let ", "%put ", "%eval(", "%sysevalf(", "%str(", "%nrstr(", "\"", "%macro m(", "%macro m;", "%if ", "%do ", "%do i=", "%scan(", "%substr(a,", "%sysfunc(", "%sysfunc(f(", "%local ", "%upcase(", "%cmpres(", "%verify(", "%goto ", "%m(\"", "%syscall ", "x=", "%lbl: "]
CTX_ATOMS = ["a", " ", "%*c;", "=", ",", ")", "(", "&x", "&x.", "%n", "%n(", "/*c*/", "\n", ";", "'s'", "\"", "1", "+", "%then ", "%to ", "%", "&", "eq", "%str(", "%eval(", "%let ", "* c;", "\u044b", ".5", "0fx", ":"]


def context_exhaustive(k, rng=None, limit=None):
    """every context followed by every sequence of at most k atoms (sampled down to limit)"""
    import itertools
    out = []
    for c in CONTEXTS:
        for n in range(0, k + 1):
            for combo in itertools.product(CTX_ATOMS, repeat=n):
                out.append(c + "".join(combo))
    if limit and len(out) > limit and rng is not None:
        out = [out[rng.below(len(out))] for _ in range(limit)]
    return out


AMP_SUFFIX = [" ", "\n", ";", ")", "(", ",", "=", " x", "\"", "'", "%", "&a", "/*c*/", " ;", "\t ", "a", "1", "%mend;", "%end;"]
AMP_PREFIX = [" ", "\n", ";", "\ufeff", "a ", "%macro m;", "x=", "\"", "%m(", "%let a="]


def amplify(inputs, rng, limit=4000):
    """inputs on which model and implementation disagree, extended by short suffixes/prefixes,
    truncated and with line feeds injected: the search space for a failing input (DESIGN 8.3d)"""
    out = []
    seen = set(inputs)
    base = sorted(set(inputs), key=len)[:400]
    for x in base:
        cands = [x + s for s in AMP_SUFFIX] + [p + x for p in AMP_PREFIX]
        cands += [x[:i] for i in range(max(0, len(x) - 3), len(x))]
        if len(x) <= 40:
            cands += [x[:i] + "\n" + x[i:] for i in range(1, len(x))]
            cands += [x[:i] + " " + x[i:] for i in range(1, len(x))]
        for c in cands:
            if c not in seen:
                seen.add(c)
                out.append(c)
    if len(out) > limit:
        out = [out[rng.below(len(out))] for _ in range(limit)]
    return out


def lf_stream(rng, n_pairs=300):
    """a line feed (and CRLF) injected at every position of every fragment, and of sampled pairs"""
    out = []
    for f in FR:
        if "\n" in f or len(f) > 40:
            continue
        out += lf_everywhere(f)
    for _ in range(n_pairs):
        t = rng.choice(FR) + rng.choice(FR)
        if len(t) <= 30:
            out += lf_everywhere(t)
            i = rng.below(len(t) + 1)
            out.append(t[:i] + "\r\n" + t[i:])
    # quoted text inside comments and macro text, with the line feed inside the quotes
    for t in ["%* it's a;quote';", "%*\"a;b\";", "* it's;", "%put 'a b';", "%let a='x y';", "%m('a b')", "%str('a b')", "/* 'a */"]:
        out += lf_everywhere(t)
    return out


SMALL_CONTEXTS = ["%eval(", "%m(", "%str(", "\"", "%let a=", "%if ", "%sysevalf(", "%macro m(", "%put ", "%do i=1 %to ", ""]
SMALL_ATOMS = ["a", " ", "%", ")", "(", ",", "=", "&x", "%n", "%str(", "\"", "'", ";", "1", "eq", "\n", "/*c*/", "%*c;", "+", "."]


def small_context_exhaustive(k, rng=None, limit=None):
    import itertools
    out = []
    for c in SMALL_CONTEXTS:
        for combo in itertools.product(SMALL_ATOMS, repeat=k):
            out.append(c + "".join(combo))
    if limit and len(out) > limit and rng is not None:
        out = [out[rng.below(len(out))] for _ in range(limit)]
    return out


def escape_stream(rng, n):
    """quoting escapes at every position of quoted literals, string expressions and %str text,
    next to macro triggers, line feeds, multi-byte characters and at end of input"""
    atoms = ["a", "''", "\"\"", "'", "\"", "%%", "%'", "%\"", "%(", "%)", "%", "&", "&&", "&x", "%m", "\n", "\u044b", " ", "(", ")", ",", "/", "/*c*/", "41", "4g", ","]
    shells = [("'", "'"), ("'", "'n"), ("'", "'x"), ("'", "'dt"), ("'", "'d"), ("'", ""), ("\"", "\""), ("\"", "\"x"), ("\"", "\"n"), ("\"", ""),
              ("%str(", ")"), ("%nrstr(", ")"), ("%str(", ""), ("%let a=%str(", ");"), ("x=\"", "\";"), ("%m(\"", "\")"), ("%put '", "';")]
    out = []
    for _ in range(n):
        a, b = rng.choice(shells)
        k = rng.below(5)
        out.append(a + "".join(rng.choice(atoms) for _ in range(k)) + b)
    return out


# ------------------------------------------------------------------ lexeme-level sampler for open code (C11)
NAME_START = list("abcdefxyzABDTNX_") + ["é", "ы", "中"]
NAME_CONT = NAME_START + list("0123456789") + ["̀", "·"]
SYMS = list("()[]{}!|^~+-<>=.,:$@#?&%/*;`\\") + ["¦", "¬", "∘", "**", "||", "!!", "<=", ">=", "<>", "><", "^=", "~=", "=*", "¬=", "¦¦"]
WSS = [" ", "  ", "\t", "\n", "\r\n", " ", " ", "　", "\u0085", "\x0b", "\x0c", " "]


def _name(rng, maxlen=6):
    return rng.choice(NAME_START) + "".join(rng.choice(NAME_CONT) for _ in range(rng.below(maxlen)))


def _digits(rng, lo=0, hi=4):
    return "".join(rng.choice("0123456789") for _ in range(lo + rng.below(hi - lo + 1)))


def random_lexeme(rng):
    """one lexeme spelled from its grammar (valid, borderline or malformed)"""
    k = rng.below(16)
    if k == 0:
        return rng.choice(WSS)
    if k == 1:
        return _name(rng)
    if k == 2:      # character formats: $ name? width? . precision?
        return "$" + (_name(rng, 4) if rng.below(3) else "") + _digits(rng, 0, 2) + rng.choice([".", ".", "", ".."]) + _digits(rng, 0, 2)
    if k == 3:      # numbers: digits [. digits] [e [sign] digits] [x]
        s = _digits(rng, 0, 3) + rng.choice(["", ".", "", "."]) + _digits(rng, 0, 3)
        if rng.below(3) == 0:
            s += rng.choice("eE") + rng.choice(["", "+", "-"]) + _digits(rng, 0, 3)
        if rng.below(3) == 0:
            s = rng.choice("0123456789") + "".join(rng.choice("0123456789abcdefABCDEF") for _ in range(rng.below(6))) + rng.choice(["x", "X", "", "."])
        return s
    if k in (4, 5):  # quoted literals with suffix-like followers
        q = rng.choice("'\"")
        body = "".join(rng.choice(["a", " ", ";", q + q, "'" if q == '"' else '"', "\n", "4", "1", ",", "f", "g", "ы", "*", "/"]) for _ in range(rng.below(6)))
        close = q if rng.below(8) else ""
        suf = rng.choice(["", "", "b", "d", "dt", "n", "t", "x", "X", "DT", "dT", "dx", "tt", "e", "_", "1", "bx"])
        return q + body + close + suf
    if k == 6:
        return rng.choice(["/*", "/* c */", "/**/", "/*/", "/***/", "/* * / */", "/*a*/*", "/*\n*/"])
    if k == 7:
        return rng.choice(["*", "* c;", "*;", "**", "* 'a;' ;", "* /* ; */ x;", "*\n;"])
    if k == 8:      # datalines blocks and near misses
        w = rng.choice(["datalines", "DataLines", "cards", "LINES", "datalines4", "cards4", "lines4", "dataline", "cards5", "datalines44"])
        gap = rng.choice(["", " ", "\n", "/*c*/", " \t "])
        data = "".join(rng.choice(["1 2", "\n", ";", "a", ";;;", ";;;;", " ", "\n;", "\n;;;;", "*"]) for _ in range(rng.below(6)))
        return w + gap + rng.choice([";", ";", "", ";;"]) + data
    if k == 9:
        return ";"
    if k == 10:
        return rng.choice(["_all_", "and", "OR", "eq", "ne", "gt", "lt", "ge", "le", "in", "not", "Else", "then", "corr", "corresponding", "exec", "execute", "null", "_null_", "data", "run", "eqt", "notin", "ine"])
    if k == 11:
        return rng.choice(["&", "&&", "& ", "&1", "&;", "%", "% ", "%1", "%;", "%%", "%(", "%'"])
    return rng.choice(SYMS)


def lexeme_stream(rng, n, maxlen=7):
    out = []
    while len(out) < n:
        s = "".join(random_lexeme(rng) for _ in range(1 + rng.below(maxlen)))
        if is_macro_free(s):
            out.append(s)
    return out


# ------------------------------------------------------------------ numeric literal spellings (C08)
NUM_EDGE = ["0", "00", "1", "9", "10", "255", "4294967295", "4294967296", "9007199254740992", "9007199254740993", "9007199254740995",
            "18446744073709551615", "18446744073709551616", "18446744073709551617", "99999999999999999999", "184467440737095516150",
            "0.1", "0.5", ".5", "5.", "1.0", "0.3", "2.5", "1.7976931348623157e308", "1.7976931348623158e308", "1.7976931348623159e308", "1.8e308",
            "1e308", "1e309", "2e308", "4.9e-324", "2.4703282292062327e-324", "2.4703282292062328e-324", "2.5e-324", "5e-324", "1e-323", "2.2250738585072014e-308",
            "2.2250738585072011e-308", "2.225073858507201e-308", "1e-400", "1e400", "1e-1000000", "1e1000000", "1e9999999", "1e-9999999", "0e5", "0.0e-5", "00000.000e+00009",
            "1e0", "1e+0", "1e-0", "1E5", "1e05", "1e005", "123456789012345678901234567890", "123456789012345678901234567890.123456789012345678901234567890",
            "0.000000000000000000000000000001", "9007199254740993.0", "9007199254740992.5", "9007199254740993.5", "4503599627370496.5", "4503599627370497.5",
            "0.1e1", "1.e5", "1.e", "1e", "1e+", "1e-", "1.5e", ".e5", "1..2", "1.2.3", "1e5.5", "1e5e5",
            "0x", "1x", "9x", "0fx", "0FX", "0ffx", "ffx", "12x", "0ax", "1ex", "1e5x", "0e0x", "0ffffffffffffffffx", "0ffffffffffffffffX", "1ffffffffffffffffx", "0fffffffffffffffffx",
            "10000000000000000x", "0ffffffffffffffff.8x", "123abcx", "0abcdefx", "0ABCDEFx", "1e1x", "0dx", "1dx", "09afx", "0g", "0fg", "1ey", "12abc", "0abx1", "1e-5x", "1.5x", "0.fx"]


def numeric_spelling(rng):
    k = rng.below(8)
    if k == 0:
        return rng.choice(NUM_EDGE)
    ip = _digits(rng, 0, 20) if rng.below(4) else _digits(rng, 1, 3)
    fp = _digits(rng, 0, 20) if rng.below(3) else ""
    s = ip
    if rng.below(2):
        s += "." + fp
    if s in ("", "."):
        s = "1" + s
    if rng.below(3) == 0:
        s += rng.choice("eE") + rng.choice(["", "+", "-"]) + (_digits(rng, 1, 3) if rng.below(5) else _digits(rng, 0, 8))
    if k == 1:     # 64-bit boundary neighbourhoods
        base = rng.choice([2 ** 64, 2 ** 63, 2 ** 53, 2 ** 32, 10 ** 19, 10 ** 20]) + rng.below(5) - 2
        s = str(base) + rng.choice(["", "", ".", ".0", "e0", "x"])
    if k == 2:     # halfway cases between adjacent doubles
        m = (1 << 52) + rng.below(1 << 20)
        sh = rng.below(12)
        v = (2 * m + 1) << sh          # exactly representable in decimal, halfway between two doubles at 54+sh bits
        s = str(v) + rng.choice(["", ".0", ".00000000000000000000001", "e0"])
    if k == 3:     # hex
        s = rng.choice("0123456789") + "".join(rng.choice("0123456789abcdefABCDEF") for _ in range(rng.below(18))) + rng.choice(["x", "X", "x", "", ".", ".8x"])
    if k == 4:     # subnormal / overflow region
        s = rng.choice(["1", "2", "4", "9", "17976931348623157", "49", "24703282292062327", "22250738585072014"]) + rng.choice(["", ".", ".5"]) + "e" + rng.choice(["-", "+", ""]) + str(290 + rng.below(40))
    return s


NUM_CONTEXTS = [("", ";"), ("x=", ";"), ("%eval(", ")"), ("%sysevalf(", ")"), ("%sysfunc(f(", "))"), ("%if ", " %then a;"), ("%let a=", ";"),
                ("%do i=", " %to 3;"), ("%m(", ")"), ("%str(", ")"), ("\"", "\""), ("%substr(a,", ")"), ("%scan(a,", ")"), ("%qsysfunc(g(1,", "))")]


def numeric_stream(rng, n):
    out = []
    for _ in range(n):
        pre, post = rng.choice(NUM_CONTEXTS) if rng.below(3) else ("", rng.choice([";", " ", "", "+1", ")", ","]))
        s = numeric_spelling(rng)
        glue = rng.choice(["", "", "", " ", "+", "-", "*", "eq ", "<"])
        if glue and rng.below(2):
            s = s + glue + numeric_spelling(rng)
        out.append(pre + s + post)
    for e in NUM_EDGE:
        out.append(e)
        out.append(e + ";")
        out.append("%eval(" + e + ")")
        out.append("%sysevalf(" + e + ")")
    return out


def mvar_expr(rng):
    """a macro variable reference expression: runs of ampersands of any length (leading and inner), name parts,
    terminating dots - the spellings lex_macro_var_expr / get_macro_resolve_ops_from_amps have to split"""
    parts = []
    for k in range(1 + rng.below(4)):
        parts.append("&" * (1 + rng.below(9)))
        parts.append(_name(rng, 4) if rng.below(8) else rng.choice(["1", " ", "", "\u044b", "_"]))
        if rng.below(3) == 0:
            parts.append("." * (1 + rng.below(2)))
    return "".join(parts)


def mvar_stream(rng, n):
    ctx = ["{}", "{};", "x={};", "\"{}\"", "\"a{}b\"d", "%let v={};", "%let {}=1;", "%put {};", "%m({})", "%m(a={})", "%eval({}+1)", "%str({})",
           "%nrstr({})", "%if {} %then a;", "%do i=1 %to {};", "%macro m; {} %mend;", "%sysfunc(f({}))", "data {}; run;", "'{}'", "%m({},{})", "* {};", "%* {};", "/* {} */"]
    out = []
    for _ in range(n):
        c = rng.choice(ctx)
        out.append(c.replace("{}", mvar_expr(rng), 1).replace("{}", mvar_expr(rng)))
    return out


def speculative_error_stream(rng, n):
    """diagnostics raised while a checkpoint may be live: a position inside a macro call/definition where the lexer
    lexes speculatively (argument name vs value), then one or two statements or calls with a missing delimiter
    (each reports a 'missing expected' error), then what decides the speculation (blank + text, '=', ',', ')')"""
    ctx = ["%m(", "%m(a", "%m(a ", "%m(a=", "%m(1,a", "%m(1, a", "%m(a/*c*/", "%m(a\n", "%macro m(a", "%macro m(a=", "%do %m(a", "%m(%n(a", "\"%m(a",
           "%let v=%m(a", "%if %m(a", "%put %m(a", "%sysfunc(f(a", "%m(a.", "%m(&a", "%m(a&b"]
    errs = ["%let x 1;", "%let x;", "%do i 1 %to 2;", "%copy a b;", "%scan(a)", "%substr(a)", "%eval(", "%local / readonly a 1;", "%end x", "%return x",
            "%upcase a", "%verify a", "%sysevalf 1", "%do %while 1;", "%global / readonly b;", "%let y 2;", "%kverify b,c)", "%qscan(a b)"]
    tails = [" b)", ")", ",b)", "=1)", " =1)", "/*c*/b)", "\n)", " b", "", " b);", "; b)", " %n)"]
    out = []
    for _ in range(n):
        k = 1 + rng.below(3)
        out.append(rng.choice(ctx) + "".join(rng.choice(errs) for _ in range(k)) + rng.choice(tails))
    return out
