"""Shared helpers: paths, PRNG, process running, dump parsing, tables."""
import os, subprocess, sys, time, json, hashlib, fcntl, re

VERIF = os.path.dirname(os.path.dirname(os.path.abspath(__file__)))
REPO = os.environ.get("VERIF_REPO", "/repo")
BUILD = os.path.join(VERIF, "_build")
CRATE = os.path.join(REPO, "crates", "sas-lexer")
SRC = os.path.join(CRATE, "src", "lexer")
NCPU = int(os.environ.get("VERIF_NCPU", min(16, os.cpu_count() or 4)))


def log(*a):
    print(*a, file=sys.stderr, flush=True)


class Rng:
    """splitmix64: every random choice of a run derives from VERIF_SEED."""

    def __init__(self, seed):
        self.s = (seed * 0x9E3779B97F4A7C15 + 0x1234567) & 0xFFFFFFFFFFFFFFFF

    def next(self):
        self.s = (self.s + 0x9E3779B97F4A7C15) & 0xFFFFFFFFFFFFFFFF
        z = self.s
        z = ((z ^ (z >> 30)) * 0xBF58476D1CE4E5B9) & 0xFFFFFFFFFFFFFFFF
        z = ((z ^ (z >> 27)) * 0x94D049BB133111EB) & 0xFFFFFFFFFFFFFFFF
        return z ^ (z >> 31)

    def below(self, n):
        return self.next() % n

    def choice(self, xs):
        return xs[self.below(len(xs))]

    def chance(self, num, den):
        return self.below(den) < num

    def randint(self, a, b):
        return a + self.below(b - a + 1)

    def fork(self, tag):
        h = int.from_bytes(hashlib.sha256(f"{self.s}:{tag}".encode()).digest()[:8], "big")
        return Rng(h)


def seed_from_env():
    try:
        return int(os.environ.get("VERIF_SEED", "1"))
    except ValueError:
        return 1


def run(cmd, inp=None, timeout=3600, env=None, cwd=None, check=False):
    e = dict(os.environ)
    e.update({"CARGO_NET_OFFLINE": "true"})
    if env:
        e.update(env)
    p = subprocess.run(cmd, input=inp, capture_output=True, timeout=timeout, env=e, cwd=cwd)
    if check and p.returncode != 0:
        raise RuntimeError(f"command failed: {cmd}\n{p.stdout.decode(errors='replace')[-3000:]}\n{p.stderr.decode(errors='replace')[-3000:]}")
    return p


class Lock:
    """advisory lock so that checks of different properties can be started concurrently"""

    def __init__(self, name):
        os.makedirs(BUILD, exist_ok=True)
        self.path = os.path.join(BUILD, name + ".lock")

    def __enter__(self):
        self.f = open(self.path, "w")
        fcntl.flock(self.f, fcntl.LOCK_EX)
        return self

    def __exit__(self, *a):
        fcntl.flock(self.f, fcntl.LOCK_UN)
        self.f.close()


# ------------------------------------------------------------------ dumps


class Tok:
    __slots__ = ("idx", "type", "chan", "byte", "char", "line", "payload")

    def __init__(self, idx, type_, chan, byte, char, line, payload):
        self.idx, self.type, self.chan, self.byte, self.char, self.line, self.payload = idx, type_, chan, byte, char, line, payload


class Err:
    __slots__ = ("kind", "byte", "char", "line", "col", "last")

    def __init__(self, kind, byte, char, line, col, last):
        self.kind, self.byte, self.char, self.line, self.col, self.last = kind, byte, char, line, col, last


class Case:
    def __init__(self, idx, hexsrc):
        self.idx = idx
        self.hex = hexsrc
        self.raw = bytes.fromhex(hexsrc)
        try:
            self.src = self.raw.decode("utf-8")
        except UnicodeDecodeError:
            self.src = None
        self.outcome = None
        self.outline = ""
        self.iters = None
        self.end = None
        self.toks = []
        self.lines = []
        self.lit = b""
        self.errs = []
        self.rows = []
        self.acc = []
        self.trace = []
        self.text = []  # the raw dump lines (for byte comparison with the model)


def parse_payload(s):
    if s == "N":
        return None
    if s[0] == "I":
        return ("I", int(s[1:]))
    if s[0] == "F":
        return ("F", int(s[1:], 16))
    if s[0] == "S":
        a, b = s[1:].split(",")
        return ("S", int(a), int(b))
    raise ValueError(s)


def parse_dump(text):
    cases = []
    cur = None
    for ln in text.split("\n"):
        if not ln:
            continue
        tag = ln[0]
        if ln.startswith("CASE "):
            _, i, *h = ln.split(" ")
            cur = Case(int(i), h[0] if h else "")
            cases.append(cur)
            continue
        if cur is None:
            continue
        cur.text.append(ln)
        if ln.startswith("OUT "):
            p = ln.split(" ")
            cur.outcome = p[1]
            cur.outline = ln
            if len(p) > 2 and p[2].startswith("iters="):
                cur.iters = int(p[2][6:])
        elif ln.startswith("END "):
            m = re.match(r"END modes=(.*) mnl=(\d+) ps=([01]*) cp=([01])$", ln)
            cur.end = {"modes": m.group(1), "mnl": int(m.group(2)), "ps": m.group(3), "cp": int(m.group(4))}
        elif tag == "T" and ln[1] == " ":
            p = ln.split(" ")
            cur.toks.append(Tok(int(p[1]), int(p[2]), int(p[3]), int(p[4]), int(p[5]), int(p[6]), parse_payload(p[7])))
        elif ln.startswith("LIT"):
            p = ln.split(" ")
            cur.lit = bytes.fromhex(p[1]) if len(p) > 1 else b""
        elif tag == "L" and ln[1] == " ":
            p = ln.split(" ")
            cur.lines.append((int(p[1]), int(p[2])))
        elif tag == "E" and ln[1] == " ":
            p = ln.split(" ")
            cur.errs.append(Err(int(p[1]), int(p[2]), int(p[3]), int(p[4]), int(p[5]), None if p[6] == "-" else int(p[6])))
        elif tag == "R":
            cur.rows.append(ln.split(" ")[1:])
        elif tag == "A":
            cur.acc.append(ln.split(" ")[1:])
        elif ln.startswith("TR "):
            cur.trace.append(ln[3:])
    return cases


def hexline(s):
    return (s.encode("utf-8") if isinstance(s, str) else s).hex()


# ------------------------------------------------------------------ tables (from implrun tables)


class Tables:
    def __init__(self, text):
        self.tt = {}
        self.tt_name = {}
        self.ek = {}
        self.ek_name = {}
        self.ek_internal = set()
        self.ch = {}
        self.ws = []
        self.xids = []
        self.xidc = []
        self.nscheck = None
        for ln in text.split("\n"):
            p = ln.split(" ")
            if p[0] == "TT":
                self.tt[p[2]] = int(p[1])
                self.tt_name[int(p[1])] = p[2]
            elif p[0] == "EK":
                self.ek[p[2]] = int(p[1])
                self.ek_name[int(p[1])] = p[2]
                if p[3] == "1":
                    self.ek_internal.add(int(p[1]))
            elif p[0] == "CH":
                self.ch[p[2]] = int(p[1])
            elif p[0] in ("WS", "XIDS", "XIDC"):
                rs = [tuple(map(int, r.split("-"))) for r in p[1:] if r]
                setattr(self, p[0].lower(), rs)
            elif p[0] == "NSCHECK":
                self.nscheck = p[1] == "1"
        self._ws = self._mk(self.ws)
        self._xs = self._mk(self.xids)
        self._xc = self._mk(self.xidc)

    @staticmethod
    def _mk(rs):
        import bisect

        starts = [a for a, _ in rs]
        ends = [b for _, b in rs]

        def f(ch):
            c = ord(ch)
            i = bisect.bisect_right(starts, c) - 1
            return i >= 0 and c <= ends[i]

        return f

    def is_ws(self, c):
        return self._ws(c)

    def is_xid_start(self, c):
        return self._xs(c)

    def is_xid_continue(self, c):
        return self._xc(c)

    def is_name_start(self, c):
        return c == "_" or self._xs(c)

    def T(self, name):
        return self.tt[name]
