#!/usr/bin/env python3
"""Cross matrix of seeded changes x checks, run on private copies (a worktree of /repo and a copy of
/verif under a scratch directory), so that /repo and /verif are not touched. For evaluation of the
machinery only; the registered checks always run from /verif against /repo.
usage: matrix.py <scratch dir> <out.json> [seed ids...] -- [properties...]"""
import os, sys, subprocess, json, re, shutil
args = sys.argv[1:]
scratch, outp = args[0], args[1]
rest = args[2:]
seeds = rest[:rest.index("--")] if "--" in rest else rest
props = rest[rest.index("--") + 1:] if "--" in rest else []
V = os.path.join(scratch, "verif")
R = os.path.join(scratch, "repo")
os.makedirs(scratch, exist_ok=True)
if not os.path.exists(R):
    subprocess.run(["git", "-C", "/repo", "worktree", "add", "--detach", R, "HEAD"], check=True, capture_output=True)
subprocess.run(["rsync", "-a", "--delete", "--exclude", "_build", "--exclude", ".git", "--exclude", "evidence", os.environ.get("VERIF_SRC", "/verif") + "/", V + "/"], check=True)
os.makedirs(os.path.join(V, "evidence"), exist_ok=True)
ct = os.path.join(V, "harness", "Cargo.toml")
_t = open(ct).read().replace("/repo/crates/sas-lexer", R + "/crates/sas-lexer")
open(ct, "w").write(_t)
env = dict(os.environ, VERIF_REPO=R, VERIF_NCPU=os.environ.get("VERIF_NCPU", "8"))
SD = os.environ.get("VERIF_SEED_DIR", "/verif/seeded")
seeds = seeds or sorted(os.listdir(SD))
res = json.load(open(outp)) if os.path.exists(outp) else {}
subprocess.run([os.path.join(V, "check"), "--setup"], cwd=V, env=env, capture_output=True)
for sid in seeds:
    meta = json.load(open(f"{SD}/{sid}/meta.json"))
    own = meta.get("property", sid[:3])
    plist = props or [own]
    subprocess.run(["git", "-C", R, "checkout", "--", "."], check=True)
    r = subprocess.run(["git", "-C", R, "apply", f"{SD}/{sid}/patch.diff"], capture_output=True, text=True)
    if r.returncode != 0:
        res.setdefault(sid, {})["apply"] = r.stderr[:200]
        continue
    for p in plist:
        if p in res.get(sid, {}):
            continue
        r = subprocess.run([os.path.join(V, "check"), p, "--tier", "quick"], cwd=V, env=env, capture_output=True, text=True)
        vio = [l for l in r.stdout.split("\n") if l.startswith("VIOLATION")]
        kind = "pass"
        detail = ""
        if vio:
            kind = "corr" if vio[0].rstrip().endswith("no-failing-input-found") else "input"
            m = re.search(r"replay=(\S+)", vio[0])
            if m and os.path.exists(m.group(1)):
                j = json.load(open(m.group(1)))
                detail = f"{j['what']}: {j['detail'][:140]} input={j['input']!r}"[:300]
        elif r.returncode != 0:
            kind = "error"
            detail = (r.stdout + r.stderr)[-200:]
        res.setdefault(sid, {})[p] = [kind, detail]
        json.dump(res, open(outp, "w"), indent=1)
        print(sid, p, kind, detail[:120], flush=True)
    subprocess.run(["git", "-C", R, "checkout", "--", "."], check=True)
print("done")
