"""Build and run the implementation side (implrun) from /repo's current working tree."""
import os, subprocess, shutil, concurrent.futures as cf
from common import VERIF, REPO, BUILD, NCPU, run, log, parse_dump, Tables, Lock, hexline

HARNESS = os.path.join(VERIF, "harness")
VARIANTS = {
    "debug": ([], "debug", "ht"),
    "release": (["--release"], "release", "ht"),
    "debug-sep": (["--features", "macro_sep"], "debug", "ht-sep"),
    "release-sep": (["--release", "--features", "macro_sep"], "release", "ht-sep"),
}
_built = {}


def build(variant):
    """cargo build of the harness against /repo's working tree with hooks on. Returns binary path."""
    if variant in _built:
        return _built[variant]
    flags, prof, tdir = VARIANTS[variant]
    target = os.path.join(BUILD, tdir)
    lockfile = os.path.join(HARNESS, "Cargo.lock")
    with Lock("cargo-" + tdir):
        # keep the lock file in step with the repository's
        src_lock = os.path.join(REPO, "Cargo.lock")
        if os.path.exists(src_lock) and not os.path.exists(lockfile):
            shutil.copy(src_lock, lockfile)
        env = {"CARGO_TARGET_DIR": target, "RUSTFLAGS": "--cfg sas_lexer_verif", "CARGO_NET_OFFLINE": "true"}
        p = run(["cargo", "build", "--offline", "--quiet"] + flags, env=env, cwd=HARNESS, timeout=1800)
        if p.returncode != 0:
            raise BuildError(p.stderr.decode(errors="replace")[-4000:])
    path = os.path.join(target, prof, "implrun")
    _built[variant] = path
    return path


class BuildError(Exception):
    pass


def _run_chunk(args):
    path, mode, lines, timeout = args
    try:
        p = subprocess.run([path, mode], input=("\n".join(lines) + "\n").encode(), capture_output=True, timeout=timeout)
        return p.stdout.decode("utf-8", errors="replace"), p.returncode
    except subprocess.TimeoutExpired as e:
        out = (e.stdout or b"").decode("utf-8", errors="replace")
        return out + "\nOUT timeout\n", -9


def run_lex(variant, inputs, mode="lexa", timeout=600, jobs=NCPU):
    """inputs: list of str. Returns list of Case in input order (index = position)."""
    path = build(variant)
    hexes = [hexline(s) for s in inputs]
    n = len(hexes)
    if n == 0:
        return []
    k = max(1, min(jobs, n // 50 + 1))
    size = (n + k - 1) // k
    chunks = [hexes[i:i + size] for i in range(0, n, size)]
    cases = []
    with cf.ThreadPoolExecutor(max_workers=k) as ex:
        for ci, (text, rc) in enumerate(ex.map(_run_chunk, [(path, mode, ch, timeout) for ch in chunks])):
            cs = parse_dump(text)
            # a crash/timeout of the process truncates the chunk: mark the remainder
            base = ci * size
            for c in cs:
                c.idx += base
            if len(cs) < len(chunks[ci]):
                from common import Case
                for j in range(len(cs), len(chunks[ci])):
                    c = Case(base + j, chunks[ci][j])
                    c.outcome = "crash"
                    c.outline = f"OUT crash rc={rc}"
                    cs.append(c)
            if cs and cs[-1].outcome is None:
                cs[-1].outcome = "hang" if rc == -9 else "crash"
                cs[-1].outline = "OUT " + cs[-1].outcome
            cases.extend(cs)
    return cases


def tables(variant="debug"):
    path = build(variant)
    p = run([path, "tables"], inp=b"", timeout=300)
    return Tables(p.stdout.decode())


def helpers(variant, lines, timeout=600):
    path = build(variant)
    p = run([path, "helpers"], inp=("\n".join(lines) + "\n").encode(), timeout=timeout)
    res = {}
    for ln in p.stdout.decode("utf-8", errors="replace").split("\n"):
        if " => " in ln:
            k, v = ln.split(" => ", 1)
            res[k] = v
    return res


def kwmap(variant, words):
    """upper-case word -> (keyword type or None, macro keyword type or None), by execution"""
    ws = sorted(set(words))
    lines = []
    for w in ws:
        h = w.encode().hex()
        lines.append(f"kw {h}")
        lines.append(f"mkw {h}")
    r = helpers(variant, lines)
    out = {}
    for w in ws:
        h = w.encode().hex()
        a = r.get(f"kw {h}", "-")
        b = r.get(f"mkw {h}", "-")
        out[w] = (None if a == "-" else int(a), None if b == "-" else int(b))
    return out


def run_buf(variant, text):
    path = build(variant)
    p = run([path, "buf"], inp=text.encode(), timeout=600)
    return p.stdout.decode()


def run_threads(variant, inputs, n=16, timeout=300):
    path = build(variant)
    p = run([path, "threads", str(n)], inp=("\n".join(hexline(s) for s in inputs) + "\n").encode(), timeout=timeout)
    return p.stdout.decode()
