#!/usr/bin/env python3
"""Confirm a seeded change in its scratch worktree (suite passes with it, demo fails with it and
passes without it) and store it under /verif/seeded/<id>/.  usage: seedcheck.py <worktree> <id>"""
import os, sys, json, shutil, subprocess
wt, sid = sys.argv[1], sys.argv[2]
seed = os.path.join(wt, "seed")
env = dict(os.environ, CARGO_NET_OFFLINE="true", CARGO_TARGET_DIR=os.path.join(wt, "target"))
def sh(cmd, **kw):
    return subprocess.run(cmd, shell=True, cwd=wt, env=env, capture_output=True, text=True, **kw)
patch = os.path.join(seed, "patch.diff")
demo = os.path.join(seed, "demo.rs")
dst_demo = os.path.join(wt, "crates/sas-lexer/tests/seed_demo.rs")
res = {}
# normalise: working tree = HEAD + patch
sh("git checkout -- . && git clean -fdq crates")
r = sh(f"git apply {patch}")
assert r.returncode == 0, r.stderr
r = sh("cargo test --workspace --no-fail-fast --offline 2>&1 | grep -E '^test result' ")
res["suite_with_patch"] = r.stdout.strip().split("\n")
suite_ok = all(" 0 failed" in l for l in res["suite_with_patch"]) and any("2152 passed" in l for l in res["suite_with_patch"])
os.makedirs(os.path.dirname(dst_demo), exist_ok=True)
shutil.copy(demo, dst_demo)
feat = os.environ.get("SEED_FEATURES", "")
r = sh(f"cargo test -p sas-lexer {feat} --test seed_demo --offline 2>&1 | grep -E '^test result|panicked' | head -5")
res["demo_with_patch"] = r.stdout.strip()
demo_fails = "FAILED" in r.stdout or "failed" in r.stdout and " 0 failed" not in r.stdout
sh(f"git apply -R {patch}")
r = sh(f"cargo test -p sas-lexer {feat} --test seed_demo --offline 2>&1 | grep -E '^test result' | head -3")
res["demo_without_patch"] = r.stdout.strip()
demo_passes = "test result: ok" in r.stdout
os.remove(dst_demo)
sh("git checkout -- . && git clean -fdq crates")
ok = suite_ok and demo_fails and demo_passes
print(json.dumps({"id": sid, "suite_ok": suite_ok, "demo_fails_with": demo_fails, "demo_passes_without": demo_passes}, indent=1))
if ok:
    out = os.path.join("/verif/seeded", sid)
    os.makedirs(out, exist_ok=True)
    shutil.copy(patch, os.path.join(out, "patch.diff"))
    shutil.copy(demo, os.path.join(out, "demo.rs"))
    meta = json.load(open(os.path.join(seed, "meta.json")))
    meta["confirmed"] = res
    meta["confirmed_how"] = "tools/seedcheck.py in a scratch worktree: full workspace suite with the patch, demo test with and without the patch"
    json.dump(meta, open(os.path.join(out, "meta.json"), "w"), indent=1)
    print("stored", out)
sys.exit(0 if ok else 1)
