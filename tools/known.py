"""Predicates naming the classes of known findings (known_findings.txt). Each takes the failing
input and the violation message and decides whether the violation is an instance of the class;
anything else is still reported."""
import re, ast


def _pair(message):
    m = re.search(r"closed prefix A=(?P<a>'(?:[^'\\]|\\.)*'|\"(?:[^\"\\]|\\.)*\") followed by B=(?P<b>'(?:[^'\\]|\\.)*'|\"(?:[^\"\\]|\\.)*\"): (?P<rest>.*)", message, re.S)
    if not m:
        return None
    try:
        return ast.literal_eval(m.group("a")), ast.literal_eval(m.group("b")), m.group("rest")
    except Exception:
        return None


def c15_datalines_lookbehind(src, message):
    """KF-1: lex_datalines accepts a datalines statement only after a default-channel ';' (or at the very
    start). A closed prefix that ends in a statement comment whose preceding default-channel token is not
    ';' (e.g. `%t*;`) therefore turns a following `lines;` into an identifier. Instance iff: the first
    token that differs is B's first default-channel token, B alone lexes it as DatalinesStart, and A's
    last default-channel token is not SEMI."""
    import impl
    pr = _pair(message)
    if not pr:
        return False
    a, b, rest = pr
    if src != a + b:
        return False
    m = re.match(r"tokens differ at (\d+):", rest)
    if not m:
        return False
    k = int(m.group(1))
    T = impl.tables("debug")
    ca, cb = impl.run_lex("release", [a, b], mode="lex", jobs=1)
    if ca.outcome != "ok" or cb.outcome != "ok":
        return False
    dflt = T.ch.get("DEFAULT", 0)
    a_def = [t for t in ca.toks[:-1] if t.chan == dflt]
    if not a_def or T.tt_name.get(a_def[-1].type) == "SEMI":
        return False
    first_b = next((j for j, t in enumerate(cb.toks) if t.chan == dflt), None)
    if first_b is None or T.tt_name.get(cb.toks[first_b].type) != "DatalinesStart":
        return False
    return k == (len(ca.toks) - 1) + first_b


def _workspace_view(src):
    """Python-level view (Token/Error dicts) computed from the *workspace* crate through implrun's bulk rows"""
    import impl, pybind
    c = impl.run_lex("release", [src], mode="lexa", jobs=1)[0]
    if c.outcome != "ok" or not c.rows:
        return None
    tn, en = pybind.py_names()
    toks = []
    for r, t in zip(c.rows, c.toks):
        # R row: idx chan type start stop line col eline ecol payload
        p = t.payload
        pl = None if p is None else (p[1] if p[0] == "I" else (("f64", p[1]) if p[0] == "F" else [p[1], p[2]]))
        toks.append(dict(zip(tn, [int(r[1]), int(r[2]), int(r[0]), int(r[3]), int(r[4]), int(r[5]), int(r[6]), int(r[7]), int(r[8]), pl])))
    errs = [dict(zip(en, [e.kind, e.byte, e.char, e.line, e.col, e.last])) for e in c.errs]
    return toks, errs, c.lit


def c20_registry_datalines4_terminator(src, message):
    """KF-2: the published crate the binding links (sas-lexer 1.0.0-beta.3) still has the defect fixed in the
    workspace crate by 1aa9991: an unterminated `datalines4;` block whose text ends with fewer than four ';'
    swallows what follows the ';' (line feeds included) into the closing token. Instance iff: the source has a
    datalines4/cards4/lines4 statement with no ';;;;' after it, the failure is a line/column mismatch, and the
    workspace crate's result for the same source satisfies the same contract."""
    import re, pybind
    if not message.startswith("Python-level contract: token") or ("line/column" not in message and "end_line/end_column" not in message):
        return False
    m = re.search(r"(?i)(?:datalines|cards|lines)4\s*;", src)
    if not m or ";;;;" in src[m.end():]:
        return False
    v = _workspace_view(src)
    if v is None:
        return False
    # the workspace crate has more token types than the linked one: judge positions only, with its own enum tables
    tt = {t["token_type"]: "EOF" if i == len(v[0]) - 1 else "x" for i, t in enumerate(v[0])}
    ch = {0: "DEFAULT", 1: "HIDDEN", 2: "COMMENT"}
    ek = {e["error_kind"]: "x" for e in v[1]}
    return not pybind.contract(src, v[0], v[1], v[2], (tt, ch, ek))
