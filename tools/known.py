"""Predicates naming the classes of known findings (known_findings.txt). Each takes the failing
input and the violation message and decides whether the violation is an instance of the class;
anything else is still reported."""
import re, ast


def _pair(message):
    m = re.search(r"closed prefix A=(?P<a>'(?:[^'\\]|\\.)*'|\"(?:[^\"\\]|\\.)*\") followed by B=(?P<b>'(?:[^'\\]|\\.)*'|\"(?:[^\"\\]|\\.)*\"): (?P<rest>.*)", message, re.S)
    if not m:
        return None
    try:
        return ast.literal_eval(m.group("a")), ast.literal_eval(m.group("b")), m.group("rest")
    except Exception:
        return None


def c15_datalines_lookbehind(src, message):
    """KF-1: lex_datalines accepts a datalines statement only after a default-channel ';' (or at the very
    start). A closed prefix that ends in a statement comment whose preceding default-channel token is not
    ';' (e.g. `%t*;`) therefore turns a following `lines;` into an identifier. Instance iff: the first
    token that differs is B's first default-channel token, B alone lexes it as DatalinesStart, and A's
    last default-channel token is not SEMI."""
    import impl
    pr = _pair(message)
    if not pr:
        return False
    a, b, rest = pr
    if src != a + b:
        return False
    m = re.match(r"tokens differ at (\d+):", rest)
    if not m:
        return False
    k = int(m.group(1))
    T = impl.tables("debug")
    ca, cb = impl.run_lex("release", [a, b], mode="lex", jobs=1)
    if ca.outcome != "ok" or cb.outcome != "ok":
        return False
    dflt = T.ch.get("DEFAULT", 0)
    a_def = [t for t in ca.toks[:-1] if t.chan == dflt]
    if not a_def or T.tt_name.get(a_def[-1].type) == "SEMI":
        return False
    first_b = next((j for j, t in enumerate(cb.toks) if t.chan == dflt), None)
    if first_b is None or T.tt_name.get(cb.toks[first_b].type) != "DatalinesStart":
        return False
    return k == (len(ca.toks) - 1) + first_b
