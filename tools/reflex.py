"""C11: the extracted reference lexer (Spec/RefLex.v) against the implementation."""
import subprocess, concurrent.futures as cf
from common import hexline, NCPU


def _chunk(args):
    exe, lines = args
    p = subprocess.run([exe, "reflex"], input=("\n".join(lines) + "\n").encode(), capture_output=True, timeout=900)
    return p.stdout.decode("utf-8", errors="replace")


def run(exe, inputs, jobs=NCPU):
    """-> list of None (not macro-free) or dict(toks=[(type,chan,byte,payload)], errs=[(kind,byte)], lit=hex)"""
    hexes = [hexline(s) for s in inputs]
    n = len(hexes)
    if not n:
        return []
    k = max(1, min(jobs, n // 200 + 1))
    size = (n + k - 1) // k
    chunks = [hexes[i:i + size] for i in range(0, n, size)]
    out = []
    with cf.ThreadPoolExecutor(max_workers=k) as ex:
        for ci, text in enumerate(ex.map(_chunk, [(exe, ch) for ch in chunks])):
            blocks = text.split("CASE ")[1:]
            res = []
            for b in blocks:
                lines = b.split("\n")
                if len(lines) < 2 or lines[1] != "MF 1":
                    res.append(None)
                    continue
                rt = [tuple(l.split()[1:]) for l in lines if l.startswith("RT ")]
                re_ = [tuple(l.split()[1:]) for l in lines if l.startswith("RE ")]
                rl = [l.split()[1] if len(l.split()) > 1 else "" for l in lines if l.startswith("RLIT")]
                res.append({"toks": rt, "errs": re_, "lit": rl[0] if rl else ""})
            while len(res) < len(chunks[ci]):
                res.append({"toks": [("crash",)], "errs": [], "lit": ""})
            out.extend(res)
    return out


def _pl(p):
    if p is None:
        return "N"
    if p[0] == "I":
        return "I" + str(p[1])
    if p[0] == "F":
        return "F%016x" % p[1]
    return f"S{p[1]},{p[2]}"


def impl_view(case):
    return ([(str(t.type), str(t.chan), str(t.byte), _pl(t.payload)) for t in case.toks],
            [(str(e.kind), str(e.byte)) for e in case.errs], case.lit.hex())


def diff(ref, case, T=None):
    """None if the implementation's result is the reference reading, else a message"""
    if ref is None:
        return None
    if case.outcome != "ok":
        return None      # panics/hangs are C01's
    it, ie, il = impl_view(case)

    def name(t):
        if T is None or len(t) < 2:
            return str(t)
        try:
            return f"{T.tt_name[int(t[0])]}/ch{t[1]}@{t[2]} {t[3]}"
        except Exception:
            return str(t)
    if ref["toks"] != it:
        k = next((i for i, (a, b) in enumerate(zip(ref["toks"], it)) if a != b), min(len(ref["toks"]), len(it)))
        a = name(ref["toks"][k]) if k < len(ref["toks"]) else "nothing"
        b = name(it[k]) if k < len(it) else "nothing"
        return f"token {k}: the grammar reads {a}, the lexer produced {b}"
    if ref["errs"] != ie:
        def en(e):
            try:
                return f"{T.ek_name[int(e[0])]}@{e[1]}"
            except Exception:
                return str(e)
        return f"errors: the grammar gives {[en(e) for e in ref['errs']]}, the lexer {[en(e) for e in ie]}"
    if ref["lit"] != il:
        return f"literal buffer: the grammar gives {ref['lit']}, the lexer {il}"
    return None
