(* Conversions between OCaml values and the extracted Coq datatypes, and dump printing.
   Part of the trusted correspondence harness (DESIGN.md section 9). *)
open Model

let rec pos_of_int i =
  if i = 1 then XH else if i land 1 = 0 then XO (pos_of_int (i lsr 1)) else XI (pos_of_int (i lsr 1))
let n_of_int i = if i = 0 then N0 else Npos (pos_of_int i)

let rec pos_bits p = match p with XH -> [1] | XO q -> 0 :: pos_bits q | XI q -> 1 :: pos_bits q

let rec pos_to_int p = match p with XH -> 1 | XO q -> 2 * pos_to_int q | XI q -> 2 * pos_to_int q + 1
let n_to_int n = match n with N0 -> 0 | Npos p -> pos_to_int p

let n_to_string n = match n with
  | N0 -> "0"
  | Npos p ->
    let bits = List.rev (pos_bits p) in
    if List.length bits <= 61 then string_of_int (List.fold_left (fun a b -> 2*a+b) 0 bits)
    else begin
      let digs = ref [0] in
      List.iter (fun b ->
        let carry = ref b in
        digs := List.map (fun d -> let v = d*2 + !carry in carry := v / 10; v mod 10) !digs;
        if !carry > 0 then digs := !digs @ [!carry]) bits;
      String.concat "" (List.rev_map string_of_int !digs)
    end

(* decimal string -> n, arbitrary size *)
let n_of_string s =
  if String.length s <= 18 then n_of_int (int_of_string s)
  else begin
    (* repeated halving of the decimal digit array, collecting bits little-endian *)
    let digs = ref (List.map (fun c -> Char.code c - 48) (List.of_seq (String.to_seq s))) in
    let bits = ref [] in
    let is_zero l = List.for_all (fun d -> d = 0) l in
    while not (is_zero !digs) do
      let rem = ref 0 in
      digs := List.map (fun d -> let v = !rem * 10 + d in rem := v mod 2; v / 2) !digs;
      bits := !rem :: !bits   (* most significant last pushed first -> reversed below *)
    done;
    (* !bits is MSB first *)
    match !bits with
    | [] -> N0
    | _ :: rest -> (* leading bit is 1 *)
      Npos (List.fold_left (fun acc b -> if b = 1 then XI acc else XO acc) XH rest)
  end

let n_to_hex16 n =
  (* 64-bit value as 16 hex digits *)
  let bits = match n with N0 -> [] | Npos p -> pos_bits p in  (* little endian *)
  let arr = Array.make 64 0 in
  List.iteri (fun i b -> if i < 64 then arr.(i) <- b) bits;
  let b = Buffer.create 16 in
  for nib = 15 downto 0 do
    let v = arr.(4*nib) + 2*arr.(4*nib+1) + 4*arr.(4*nib+2) + 8*arr.(4*nib+3) in
    Buffer.add_char b "0123456789abcdef".[v]
  done;
  Buffer.contents b

let n_of_hex s =
  let n = ref N0 in
  String.iter (fun c ->
    let v = if c >= '0' && c <= '9' then Char.code c - 48
            else if c >= 'a' && c <= 'f' then Char.code c - 87 else Char.code c - 55 in
    (* n := n*16 + v *)
    let bits = [ (v lsr 3) land 1; (v lsr 2) land 1; (v lsr 1) land 1; v land 1 ] in
    List.iter (fun b ->
      n := (match !n with
            | N0 -> if b = 1 then Npos XH else N0
            | Npos p -> Npos (if b = 1 then XI p else XO p))) bits) s;
  !n

let ascii_code (a : ascii) : int =
  match a with Ascii (b0, b1, b2, b3, b4, b5, b6, b7) ->
    let v b k = if b then 1 lsl k else 0 in
    v b0 0 + v b1 1 + v b2 2 + v b3 3 + v b4 4 + v b5 5 + v b6 6 + v b7 7

let ascii_of_char (c : Stdlib.Char.t) : ascii =
  let v = Stdlib.Char.code c in
  let b k = (v lsr k) land 1 = 1 in
  Ascii (b 0, b 1, b 2, b 3, b 4, b 5, b 6, b 7)

let rec nat_of_int i = if i <= 0 then O else S (nat_of_int (i - 1))

let string_of_coq_string (s : Model.string) : Stdlib.String.t =
  let b = Buffer.create 16 in
  let rec go (s : Model.string) = match s with
    | EmptyString -> ()
    | String (a, r) -> Buffer.add_char b (Stdlib.Char.chr (ascii_code a)); go r in
  go s; Buffer.contents b

let payload_to_string p = match p with
  | PNone -> "N"
  | PInt v -> "I" ^ n_to_string v
  | PFloat b -> "F" ^ n_to_hex16 b
  | PStr (a, b) -> "S" ^ n_to_string a ^ "," ^ n_to_string b

let parse_payload s =
  if s = "N" then PNone
  else match s.[0] with
    | 'I' -> PInt (n_of_string (String.sub s 1 (String.length s - 1)))
    | 'F' -> PFloat (n_of_hex (String.sub s 1 (String.length s - 1)))
    | 'S' ->
      let r = String.sub s 1 (String.length s - 1) in
      let i = String.index r ',' in
      PStr (n_of_string (String.sub r 0 i), n_of_string (String.sub r (i+1) (String.length r - i - 1)))
    | _ -> failwith "payload"

let chan_of_int i = match i with 0 -> CH_DEFAULT | 1 -> CH_HIDDEN | 2 -> CH_COMMENT | _ -> failwith "chan"

let hex_of_bytes (l : n list) =
  let b = Buffer.create 16 in
  List.iter (fun x -> Buffer.add_string b (Printf.sprintf "%02x" (n_to_int x))) l;
  Buffer.contents b

let bytes_of_hex s =
  let n = String.length s / 2 in
  List.init n (fun i -> n_of_int (int_of_string ("0x" ^ String.sub s (2*i) 2)))

let acc_str f r = match r with
  | AOk v -> f v
  | AErr k -> "!" ^ n_to_string (ek_code k)
  | APanic -> "PANIC"

(* dump of a detached buffer, same format as implrun's dump_buffer(.., None, true) *)
let dump_buffer out d (b : tbuf) with_acc =
  List.iteri (fun i t ->
    Printf.bprintf out "T %d %s %s %s %s %s %s\n" i
      (n_to_string (tt_to_N t.t_type)) (n_to_string (ch_to_N t.t_chan))
      (n_to_string t.t_byte) (n_to_string t.t_start) (n_to_string t.t_line)
      (payload_to_string t.t_payload)) b.b_toks;
  List.iter (fun l -> Printf.bprintf out "L %s %s\n" (n_to_string l.l_byte) (n_to_string l.l_start)) b.b_lines;
  Printf.bprintf out "LIT %s\n" (hex_of_bytes b.b_lit);
  if with_acc then begin
    (match into_resolved_token_vec d b with
     | None -> Buffer.add_string out "R panic\n"
     | Some rows ->
       List.iter (fun r ->
         Printf.bprintf out "R %s %s %s %s %s %s %s %s %s %s\n"
           (n_to_string r.r_index) (n_to_string (ch_to_N r.r_chan)) (n_to_string (tt_to_N r.r_type))
           (n_to_string r.r_start) (n_to_string r.r_stop) (n_to_string r.r_line) (n_to_string r.r_column)
           (n_to_string r.r_end_line) (n_to_string r.r_end_column) (payload_to_string r.r_payload)) rows);
    let n = n_to_int (n_toks b) in
    for i = 0 to n - 1 do
      let ni = n_of_int i in
      let cols = [
        acc_str (fun c -> n_to_string (ch_to_N c)) (get_token_channel d b ni);
        acc_str (fun c -> n_to_string (tt_to_N c)) (get_token_type d b ni);
        acc_str n_to_string (get_token_start_byte_offset d b ni);
        acc_str n_to_string (get_token_end_byte_offset d b ni);
        acc_str n_to_string (get_token_start d b ni);
        acc_str n_to_string (get_token_end d b ni);
        acc_str n_to_string (get_token_start_line d b ni);
        acc_str n_to_string (get_token_start_column d b ni);
        acc_str n_to_string (get_token_end_line d b ni);
        acc_str n_to_string (get_token_end_column d b ni);
        acc_str payload_to_string (get_token_payload d b ni) ] in
      if List.mem "PANIC" cols then Printf.bprintf out "A %d panic\n" i
      else Printf.bprintf out "A %d %s\n" i (String.concat " " cols)
    done
  end
