(* modelrun: the extracted Coq model behind the same command line and dump format as implrun *)
open Model
open Driver_common

let split s = List.filter (fun x -> x <> "") (String.split_on_char ' ' (String.trim s))

let tt_of_int i = match tt_of_N (n_of_int i) with Some t -> t | None -> failwith "token type"

let run_buf d =
  let lines = ref [] and toks = ref [] and lit = ref [] in
  let out = Buffer.create 65536 in
  (try while true do
    let line = input_line stdin in
    match split line with
    | "BUF" :: _ -> lines := []; toks := []; lit := []; Buffer.add_string out (String.trim line); Buffer.add_char out '\n'
    | ["T"; ch; ty; b; c; l; p] ->
      toks := { t_chan = chan_of_int (int_of_string ch); t_type = tt_of_int (int_of_string ty);
                t_byte = n_of_string b; t_start = n_of_string c; t_line = n_of_string l;
                t_payload = parse_payload p } :: !toks
    | ["L"; b; c] -> lines := { l_byte = n_of_string b; l_start = n_of_string c } :: !lines
    | "LIT" :: rest -> lit := (match rest with [h] -> bytes_of_hex h | _ -> [])
    | "ENDBUF" :: _ ->
      let b = { b_lines = List.rev !lines; b_toks = List.rev !toks; b_lit = !lit } in
      dump_buffer out d b true;
      Printf.bprintf out "WF %d\n" (if wfbuf_b b then 1 else 0);
      print_string (Buffer.contents out); Buffer.clear out
    | _ -> ()
  done with End_of_file -> ());
  print_string (Buffer.contents out)

(* ---- UTF-8 decoding of the input bytes into scalar values *)
let decode_utf8 (b : Stdlib.String.t) : n list =
  let n = String.length b in
  let rec go i acc =
    if i >= n then List.rev acc
    else
      let c = Char.code b.[i] in
      if c < 0x80 then go (i+1) (n_of_int c :: acc)
      else if c < 0xE0 then go (i+2) (n_of_int (((c land 0x1F) lsl 6) lor (Char.code b.[i+1] land 0x3F)) :: acc)
      else if c < 0xF0 then go (i+3) (n_of_int (((c land 0x0F) lsl 12) lor ((Char.code b.[i+1] land 0x3F) lsl 6) lor (Char.code b.[i+2] land 0x3F)) :: acc)
      else go (i+4) (n_of_int (((c land 0x07) lsl 18) lor ((Char.code b.[i+1] land 0x3F) lsl 12) lor ((Char.code b.[i+2] land 0x3F) lsl 6) lor (Char.code b.[i+3] land 0x3F)) :: acc)
  in go 0 []

let string_of_hex h =
  let n = String.length h / 2 in
  String.init n (fun i -> Char.chr (int_of_string ("0x" ^ String.sub h (2*i) 2)))

let cstr l = string_of_coq_string l

(* Rust's {:?} of LexerMode *)
let mode_str (m : mode) : Stdlib.String.t =
  let b x = if x then "true" else "false" in
  match m with
  | MDefault -> "Default"
  | MStringExpr a -> Printf.sprintf "StringExpr { allow_stat: %s }" (b a)
  | MMakeCheckpoint -> "MakeCheckpoint"
  | MWsOrCStyleCommentOnly -> "WsOrCStyleCommentOnly"
  | MExpectSymbol (t, c) -> Printf.sprintf "ExpectSymbol(%s, %s)" (cstr (tt_name t)) (cstr (ch_name c))
  | MExpectSemiOrEOF -> "ExpectSemiOrEOF"
  | MMaybeMacroCallArgsOrLabel l -> Printf.sprintf "MaybeMacroCallArgsOrLabel { check_macro_label: %s }" (b l)
  | MMaybeMacroCallArgAssign f -> Printf.sprintf "MaybeMacroCallArgAssign { flags: MacroArgNameValueFlags(%s) }" (n_to_string f)
  | MMacroCallArgOrValue f -> Printf.sprintf "MacroCallArgOrValue { flags: MacroArgNameValueFlags(%s) }" (n_to_string f)
  | MMaybeMacroDefArgs -> "MaybeMacroDefArgs"
  | MMacroDefArg -> "MacroDefArg"
  | MMacroDefNextArgOrDefaultValue -> "MacroDefNextArgOrDefaultValue"
  | MMacroDefName -> "MacroDefName"
  | MMacroCallValue (f, p) -> Printf.sprintf "MacroCallValue { flags: MacroArgNameValueFlags(%s), pnl: %s }" (n_to_string f) (n_to_string p)
  | MMaybeTailMacroArgValue -> "MaybeTailMacroArgValue"
  | MMacroStrQuotedExpr (m, p) -> Printf.sprintf "MacroStrQuotedExpr { mask_macro: %s, pnl: %s }" (b m) (n_to_string p)
  | MMacroEval (f, p) -> Printf.sprintf "MacroEval { macro_eval_flags: MacroEvalExprFlags(%s), pnl: %s }" (n_to_string f) (n_to_string p)
  | MMacroDo -> "MacroDo"
  | MMacroLocalGlobal l -> Printf.sprintf "MacroLocalGlobal { is_local: %s }" (b l)
  | MMacroNameExpr (f, e) ->
    Printf.sprintf "MacroNameExpr(%s, %s)" (b f) (match e with None -> "None" | Some k -> "Some(" ^ cstr (ek_name k) ^ ")")
  | MMacroSemiTerminatedTextExpr -> "MacroSemiTerminatedTextExpr"
  | MMacroStatOptionsTextExpr -> "MacroStatOptionsTextExpr"

let modes_str (l : mode list) = "[" ^ String.concat ", " (List.rev_map mode_str l) ^ "]"

let run_lex d sep with_acc =
  let out = Buffer.create (1 lsl 20) in
  let i = ref 0 in
  (try while true do
    let line = String.trim (input_line stdin) in
    let bytes = string_of_hex line in
    Printf.bprintf out "CASE %d %s\n" !i line;
    incr i;
    let src = decode_utf8 bytes in
    let r = lex { dbg = d; msep = sep } src in
    (match r.lr_outcome with
     | Some site -> Printf.bprintf out "OUT panic %s\n" (n_to_string site)
     | None ->
       let s = r.lr_state in
       Printf.bprintf out "OUT %s iters=%s\n" (if s.s_aborted then "aborted" else "ok") (n_to_string s.s_iters);
       let e = r.lr_end in
       Printf.bprintf out "END modes=%s mnl=%s ps=%s cp=%d\n" (modes_str e.s_modes) (n_to_string e.s_mnl)
         (String.concat "" (List.rev_map (fun x -> if x then "1" else "0") e.s_pstat))
         (match e.s_cp with Some _ -> 1 | None -> 0);
       dump_buffer out d r.lr_buffer with_acc;
       List.iter (fun (e : err_info) ->
         Printf.bprintf out "E %s %s %s %s %s %s\n" (n_to_string (ek_code e.e_kind)) (n_to_string e.e_byte)
           (n_to_string e.e_char) (n_to_string e.e_line) (n_to_string e.e_col)
           (match e.e_last with None -> "-" | Some t -> n_to_string t)) r.lr_errors;
       let g = s.s_ghost in
       Printf.bprintf out "G lines_ok=%b debt=%b err_ok=%b rollbacks=%s maxmodes=%s wf=%b consumed=%b loopdet=%b\n" g.g_lines_ok g.g_line_debt
         g.g_err_ok (n_to_string g.g_rollbacks) (n_to_string g.g_max_modes) (wfbuf_b r.lr_buffer)
         (s.s_cur.c_rest = []) s.s_loop_detected);
    if Buffer.length out > (1 lsl 19) then (print_string (Buffer.contents out); Buffer.clear out)
  done with End_of_file -> ());
  print_string (Buffer.contents out)

let run_reflex () =
  let out = Buffer.create (1 lsl 20) in
  let i = ref 0 in
  (try while true do
    let line = String.trim (input_line stdin) in
    let src = decode_utf8 (string_of_hex line) in
    Printf.bprintf out "CASE %d %s\n" !i line; incr i;
    let text = (match src with c :: r when n_to_int c = 65279 -> r | _ -> src) in
    if not (macro_free text) then Buffer.add_string out "MF 0\n"
    else begin
      Buffer.add_string out "MF 1\n";
      let ((toks, errs), lit) = reflex src in
      List.iter (fun (t : rtok) ->
        Printf.bprintf out "RT %s %s %s %s\n" (n_to_string (tt_to_N t.rt_type)) (n_to_string (ch_to_N t.rt_chan))
          (n_to_string t.rt_byte) (payload_to_string t.rt_payload)) toks;
      List.iter (fun (e : rerr) -> Printf.bprintf out "RE %s %s\n" (n_to_string (ek_code e.re_kind)) (n_to_string e.re_byte)) errs;
      Printf.bprintf out "RLIT %s\n" (hex_of_bytes lit)
    end;
    if Buffer.length out > (1 lsl 19) then (print_string (Buffer.contents out); Buffer.clear out)
  done with End_of_file -> ());
  print_string (Buffer.contents out)

(* C15: one pair "hexA hexB" per line (an empty part is written "-") *)
let run_compose d sep =
  let out = Buffer.create (1 lsl 16) in
  let i = ref 0 in
  (try while true do
    let line = String.trim (input_line stdin) in
    (match split line with
     | [a; b] ->
       let dec h = if h = "-" then [] else decode_utf8 (string_of_hex h) in
       let r = compose_check { dbg = d; msep = sep } (dec a) (dec b) in
       Printf.bprintf out "CASE %d %s\n" !i (match r with None -> "notclosed" | Some true -> "holds" | Some false -> "fails")
     | _ -> Printf.bprintf out "CASE %d bad\n" !i);
    incr i
  done with End_of_file -> ());
  print_string (Buffer.contents out)

(* C20: one msgpack message (hex) per line: read it with the extracted reader, write it back with the
   extracted writer, and print what Python receives through the class field names *)
let rec mp_str (v : mp) : Stdlib.String.t =
  match v with
  | MNil -> "N"
  | MUInt n -> "I" ^ n_to_string n
  | MF64 b -> "F" ^ n_to_string b
  | MBin b -> "B" ^ hex_of_bytes b
  | MArr l -> "[" ^ String.concat "," (List.map mp_str l) ^ "]"

let coq_string_of (s : Stdlib.String.t) : Model.string =
  let rec go i acc = if i < 0 then acc else go (i - 1) (String (ascii_of_char s.[i], acc)) in
  go (Stdlib.String.length s - 1) EmptyString

let run_wire () =
  let out = Buffer.create (1 lsl 20) in
  let i = ref 0 in
  (* first line: the Python field names, "tok a,b,c err d,e,f" *)
  let names l = List.map coq_string_of (String.split_on_char ',' l) in
  let (tok_names, err_names) =
    match split (input_line stdin) with
    | ["tok"; a; "err"; b] -> (names a, names b)
    | _ -> failwith "wire: field names expected" in
  (try while true do
    let line = String.trim (input_line stdin) in
    let bytes = List.map n_of_int (List.init (String.length line / 2) (fun k -> int_of_string ("0x" ^ String.sub line (2*k) 2))) in
    Printf.bprintf out "CASE %d\n" !i; incr i;
    (match decode (nat_of_int 8) bytes with
     | Some (v, []) ->
       let back = encode v in
       Printf.bprintf out "WIRE %s\n" (if back = bytes then "same" else "reencoded-differs " ^ hex_of_bytes back)
     | Some (_, _) -> Buffer.add_string out "WIRE trailing-bytes\n"
     | None -> Buffer.add_string out "WIRE undecodable\n");
    (match py_decode tok_names err_names (nat_of_int 8) bytes with
     | Some ((ts, es), lit) ->
       List.iter (fun fields -> Printf.bprintf out "PT %s\n" (String.concat " " (List.map (fun (n, v) -> cstr n ^ "=" ^ mp_str v) fields))) ts;
       List.iter (fun fields -> Printf.bprintf out "PE %s\n" (String.concat " " (List.map (fun (n, v) -> cstr n ^ "=" ^ mp_str v) fields))) es;
       Printf.bprintf out "PLIT %s\n" (hex_of_bytes lit)
     | None -> Buffer.add_string out "PY none\n");
    if Buffer.length out > (1 lsl 19) then (print_string (Buffer.contents out); Buffer.clear out)
  done with End_of_file -> ());
  print_string (Buffer.contents out)

let () =
  let mode = if Array.length Sys.argv > 1 then Sys.argv.(1) else "" in
  let d = not (Array.length Sys.argv > 2 && Sys.argv.(2) = "release") in
  match mode with
  | "buf" -> run_buf d
  | "reflex" -> run_reflex ()
  | "wire" -> run_wire ()
  | "compose" -> run_compose d (Array.length Sys.argv > 3 && Sys.argv.(3) = "sep")
  | "lex" -> run_lex d (Array.length Sys.argv > 3 && Sys.argv.(3) = "sep") false
  | "lexa" -> run_lex d (Array.length Sys.argv > 3 && Sys.argv.(3) = "sep") true
  | _ -> prerr_endline "usage: modelrun buf|lex|lexa [debug|release] [sep]"; exit 2
