(* modelrun: the extracted Coq model behind the same command line and dump format as implrun *)
open Model
open Driver_common

let split s = List.filter (fun x -> x <> "") (String.split_on_char ' ' (String.trim s))

let tt_of_int i = match tt_of_N (n_of_int i) with Some t -> t | None -> failwith "token type"

let run_buf d =
  let lines = ref [] and toks = ref [] and lit = ref [] in
  let out = Buffer.create 65536 in
  (try while true do
    let line = input_line stdin in
    match split line with
    | "BUF" :: _ -> lines := []; toks := []; lit := []; Buffer.add_string out (String.trim line); Buffer.add_char out '\n'
    | ["T"; ch; ty; b; c; l; p] ->
      toks := { t_chan = chan_of_int (int_of_string ch); t_type = tt_of_int (int_of_string ty);
                t_byte = n_of_string b; t_start = n_of_string c; t_line = n_of_string l;
                t_payload = parse_payload p } :: !toks
    | ["L"; b; c] -> lines := { l_byte = n_of_string b; l_start = n_of_string c } :: !lines
    | "LIT" :: rest -> lit := (match rest with [h] -> bytes_of_hex h | _ -> [])
    | "ENDBUF" :: _ ->
      let b = { b_lines = List.rev !lines; b_toks = List.rev !toks; b_lit = !lit } in
      dump_buffer out d b true;
      Printf.bprintf out "WF %d\n" (if wfbuf_b b then 1 else 0);
      print_string (Buffer.contents out); Buffer.clear out
    | _ -> ()
  done with End_of_file -> ());
  print_string (Buffer.contents out)

let () =
  let mode = if Array.length Sys.argv > 1 then Sys.argv.(1) else "" in
  let d = not (Array.length Sys.argv > 2 && Sys.argv.(2) = "release") in
  match mode with
  | "buf" -> run_buf d
  | _ -> prerr_endline "usage: modelrun buf|lex|lexa [debug|release] [sep]"; exit 2
